"""Generated facts for C18 (saving / loading solvers, neurodiffeq/solvers_utils.py).

A small fail-closed `ast` extractor (the module is never imported or run) that regenerates,
from the current source,

  * get_conditions: which dictionary it iterates and writes (`condition.__dict__` itself or a
    copy), whether it writes `condition_type`, whether it overwrites function attributes with
    their source text;
  * PretrainedSolver.save: the key list of `save_dict` with the expression stored under each
    key, and whether `get_conditions(self.conditions)` is evaluated before `dill.dump`;
  * PretrainedSolver.load: for each solver kind the keyword arguments passed to `cls(...)` with
    the provenance of each value under the default `SolverConfig()` (all fields None), and the
    attributes assigned on the new solver afterwards,

and emits them as Coq list literals into coq/gen/Gen_C18.v (`facts : srcfacts`), which
coq/model/Persist.v's `save` / `load` are parameterised by.  Anything outside the recognised
shapes raises TranslationError and nothing is written.
"""
import ast
import copy
import json
import os

from pyfront.interp import TranslationError

F = 'neurodiffeq/solvers_utils.py'
KINDS = ('Solver1D', 'Solver2D', 'BundleSolver1D')


class Extractor:
    def __init__(self, repo, relpath=F):
        self.relpath = relpath
        self.src = open(os.path.join(repo, relpath)).read()
        self.tree = ast.parse(self.src)

    def err(self, node, what):
        raise TranslationError(self.relpath, getattr(node, 'lineno', 0), 'C18 extractor: ' + what)

    # ------------------------------------------------------------------ get_conditions
    COPY_FORMS = {'condition.__dict__.copy()', 'dict(condition.__dict__)', 'copy.copy(condition.__dict__)',
                  'copy.deepcopy(condition.__dict__)', 'copy(condition.__dict__)', 'deepcopy(condition.__dict__)',
                  '{**condition.__dict__}', 'vars(condition).copy()', 'dict(vars(condition))'}
    ALIAS_FORMS = {'condition.__dict__', 'vars(condition)'}
    # canonical forms after normalisation (locals renamed, single-use temporaries inlined, operands of
    # == / != sorted, `if not c: A else: B` turned into `if c: B else: A`)
    WRITE_TYPE = "cond_dict['condition_type'] = condition.__class__.__name__"
    REPLACE_LOOP = ("for key, value in cond_dict.items():\n    if isinstance(value, types.FunctionType):\n"
                    "        if '' != get_source(value):\n            cond_dict[key] = get_source(value)")

    # ------------------------------------------------------------------ normalisation
    def store_counts(self, fn):
        c = {}
        for n in ast.walk(fn):
            if isinstance(n, ast.Name) and isinstance(n.ctx, ast.Store):
                c[n.id] = c.get(n.id, 0) + 1
        return c

    def pure(self, e):
        """an expression a temporary may stand for: names, attribute chains, constants, get_source(<name>)"""
        if isinstance(e, (ast.Name, ast.Constant)):
            return True
        if isinstance(e, ast.Attribute):
            return self.pure(e.value)
        if isinstance(e, ast.Call) and isinstance(e.func, ast.Name) and e.func.id == 'get_source' and not e.keywords:
            return all(isinstance(a, ast.Name) for a in e.args)
        return False

    def norm_expr(self, e, rename, temps):
        ex = self

        class N(ast.NodeTransformer):
            def visit_Name(self, n):
                if isinstance(n.ctx, ast.Load) and n.id in temps:
                    return copy.deepcopy(temps[n.id])
                if n.id in rename:
                    return ast.copy_location(ast.Name(id=rename[n.id], ctx=n.ctx), n)
                return n

            def visit_Compare(self, n):
                self.generic_visit(n)
                if len(n.ops) == 1 and isinstance(n.ops[0], (ast.Eq, ast.NotEq)):
                    a, b = sorted([n.left, n.comparators[0]], key=ast.unparse)
                    n.left, n.comparators = a, [b]
                return n

            def visit_IfExp(self, n):
                self.generic_visit(n)
                if isinstance(n.test, ast.UnaryOp) and isinstance(n.test.op, ast.Not):
                    n.test, n.body, n.orelse = n.test.operand, n.orelse, n.body
                return n
        return N().visit(copy.deepcopy(e))

    def norm_block(self, stmts, rename, temps, counts):
        """-> list of normalised statements (ast); assignments to single-use pure temporaries are dropped"""
        out = []
        for s in stmts:
            if isinstance(s, ast.Assign) and len(s.targets) == 1 and isinstance(s.targets[0], ast.Name) \
                    and s.targets[0].id not in rename and counts.get(s.targets[0].id) == 1 and self.pure(s.value):
                temps[s.targets[0].id] = self.norm_expr(s.value, rename, temps)
                continue
            if isinstance(s, ast.For):
                r2 = dict(rename)
                if isinstance(s.target, ast.Tuple) and len(s.target.elts) == 2 and all(isinstance(x, ast.Name) for x in s.target.elts) \
                        and isinstance(s.iter, ast.Call) and isinstance(s.iter.func, ast.Attribute) and s.iter.func.attr == 'items':
                    r2[s.target.elts[0].id], r2[s.target.elts[1].id] = 'key', 'value'
                new = ast.For(target=self.norm_expr(s.target, r2, temps), iter=self.norm_expr(s.iter, r2, temps),
                              body=self.norm_block(s.body, r2, dict(temps), counts), orelse=self.norm_block(s.orelse, r2, dict(temps), counts))
            elif isinstance(s, ast.If):
                test = self.norm_expr(s.test, rename, temps)
                body, orelse = self.norm_block(s.body, rename, dict(temps), counts), self.norm_block(s.orelse, rename, dict(temps), counts)
                if isinstance(test, ast.UnaryOp) and isinstance(test.op, ast.Not) and orelse:
                    test, body, orelse = test.operand, orelse, body
                new = ast.If(test=test, body=body or [ast.Pass()], orelse=orelse)
            else:
                new = self.norm_expr(s, rename, temps)
            out.append(ast.fix_missing_locations(ast.copy_location(new, s)))
        return out

    def get_conditions(self):
        fn = next((n for n in self.tree.body if isinstance(n, ast.FunctionDef) and n.name == 'get_conditions'), None)
        if fn is None:
            raise TranslationError(self.relpath, 0, 'C18 extractor: get_conditions not found')
        if len(fn.args.args) != 1:
            self.err(fn, 'get_conditions must take the list of conditions only')
        loops = [n for n in ast.walk(fn) if isinstance(n, ast.For) and isinstance(n.target, ast.Name)
                 and ast.unparse(n.iter) == fn.args.args[0].arg]
        if len(loops) != 1:
            self.err(fn, 'expected exactly one loop over the conditions')
        loop = loops[0]
        counts = self.store_counts(fn)
        # the dictionary that describes one condition: what is appended to the returned list
        appended = [s.value.args[0].id for s in loop.body
                    if isinstance(s, ast.Expr) and isinstance(s.value, ast.Call) and isinstance(s.value.func, ast.Attribute)
                    and s.value.func.attr == 'append' and len(s.value.args) == 1 and isinstance(s.value.args[0], ast.Name)]
        if len(appended) != 1:
            self.err(loop, 'expected exactly one `<list>.append(<condition dictionary>)` in the loop')
        rename = {loop.target.id: 'condition', appended[0]: 'cond_dict'}
        facts = {'aliased': None, 'writes_type': False, 'replaces_fun': False, 'line': loop.lineno}
        for s in self.norm_block(loop.body, rename, {}, counts):
            txt = ast.unparse(s)
            if isinstance(s, ast.Assign) and len(s.targets) == 1 and ast.unparse(s.targets[0]) == 'cond_dict':
                if facts['aliased'] is not None:
                    self.err(s, 'the condition dictionary is bound twice')
                v = ast.unparse(s.value)
                if v in self.ALIAS_FORMS:
                    facts['aliased'] = True
                elif v in self.COPY_FORMS:
                    facts['aliased'] = False
                else:
                    self.err(s, f'cannot tell whether `{v}` aliases condition.__dict__')
                facts['dict_line'] = s.lineno
            elif facts['aliased'] is None:
                self.err(s, 'the loop must start by binding the condition dictionary')
            elif txt == self.WRITE_TYPE:
                facts['writes_type'] = True
            elif txt == self.REPLACE_LOOP:
                facts['replaces_fun'] = True
            elif isinstance(s, ast.Expr) and isinstance(s.value, ast.Call) and ast.unparse(s.value.func).endswith('.append') \
                    and [ast.unparse(a) for a in s.value.args] == ['cond_dict']:
                pass
            else:
                self.err(s, f'statement not accepted in get_conditions (normalised): {txt[:100]}')
        if facts['aliased'] is None:
            self.err(loop, 'no condition dictionary bound')
        return facts

    # ------------------------------------------------------------------ save
    def method(self, cls, name):
        c = next((n for n in self.tree.body if isinstance(n, ast.ClassDef) and n.name == cls), None)
        if c is None:
            raise TranslationError(self.relpath, 0, f'C18 extractor: class {cls} not found')
        m = next((n for n in c.body if isinstance(n, ast.FunctionDef) and n.name == name), None)
        if m is None:
            raise TranslationError(self.relpath, c.lineno, f'C18 extractor: {cls}.{name} not found')
        return m

    OPT_CLASS_LOOP = ("for cls in torch.optim.Optimizer.__subclasses__():\n"
                      "    if cls.__name__ == self.optimizer.__class__.__name__:\n        optimizer_class = self.optimizer.__class__")

    def local_kind(self, fn, name):
        """canonical name of a local variable stored in the saved dictionary"""
        stores = [n for n in ast.walk(fn) if isinstance(n, ast.Assign) and any(isinstance(t, ast.Name) and t.id == name for t in n.targets)]
        # `v = None; for c in torch.optim.Optimizer.__subclasses__(): if <names equal>: v = self.optimizer.__class__`
        if len(stores) == 2 and ast.unparse(stores[0].value) == 'None':
            for loop in [n for n in ast.walk(fn) if isinstance(n, ast.For) and isinstance(n.target, ast.Name)]:
                if stores[1] in list(ast.walk(loop)):
                    txt = '\n'.join(ast.unparse(x) for x in self.norm_block([loop], {loop.target.id: 'cls', name: 'optimizer_class'}, {}, {}))
                    if txt == self.OPT_CLASS_LOOP:
                        return 'optimizer_class'
        if len(stores) == 1 and isinstance(stores[0].value, ast.Dict) and any(
                isinstance(c, ast.Call) and ast.unparse(c.func) == 'get_conditions' for c in ast.walk(stores[0].value)):
            return 'diff_equation_details'
        return name

    def save(self):
        fn = self.method('PretrainedSolver', 'save')
        dumps = [n for n in ast.walk(fn) if isinstance(n, ast.Call) and ast.unparse(n.func) == 'dill.dump']
        if not dumps:
            self.err(fn, 'no dill.dump call in save')
        names = {ast.unparse(c.args[0]) if c.args else None for c in dumps}
        if len(names) != 1 or not all(c.args and isinstance(c.args[0], ast.Name) for c in dumps):
            self.err(dumps[0], 'dill.dump must be applied to one dictionary variable')
        dname = names.pop()
        dicts = [n for n in ast.walk(fn) if isinstance(n, ast.Assign) and len(n.targets) == 1
                 and isinstance(n.targets[0], ast.Name) and n.targets[0].id == dname]
        if len(dicts) != 1 or not isinstance(dicts[0].value, ast.Dict):
            self.err(fn, f'expected exactly one `{dname} = {{...}}` literal')
        d = dicts[0].value
        entries = []
        for k, v in zip(d.keys, d.values):
            if not (isinstance(k, ast.Constant) and isinstance(k.value, str)):
                self.err(d, 'key of the saved dictionary is not a string literal')
            entries.append((k.value, self.local_kind(fn, v.id) if isinstance(v, ast.Name) and v.id != 'self' else ast.unparse(v)))
        if len({k for k, _ in entries}) != len(entries):
            self.err(d, 'duplicate key in the saved dictionary')
        for n in ast.walk(fn):      # later writes into save_dict would change what is stored
            if isinstance(n, (ast.Assign, ast.AugAssign, ast.Delete)):
                tg = n.targets if not isinstance(n, ast.AugAssign) else [n.target]
                for t in tg:
                    if isinstance(t, ast.Subscript) and ast.unparse(t.value) == dname:
                        self.err(n, 'the saved dictionary is modified after its literal')
            if isinstance(n, ast.Call) and ast.unparse(n.func) in tuple(f'{dname}.{m}' for m in ('update', 'pop', 'clear', 'setdefault', 'popitem')):
                self.err(n, 'the saved dictionary is modified after its literal')
        gcs = [n for n in ast.walk(fn) if isinstance(n, ast.Call) and ast.unparse(n.func) == 'get_conditions']
        touch = {'called': bool(gcs), 'on_alias': False, 'before_dump': False}
        for c in gcs:
            a = [ast.unparse(x) for x in c.args]
            if a == ['self.conditions']:
                touch['on_alias'] = True
            elif a in (['copy.deepcopy(self.conditions)'], ['deepcopy(self.conditions)']):
                pass
            else:
                self.err(c, f'get_conditions applied to {a}')
            if all(c.lineno < dmp.lineno for dmp in dumps):
                touch['before_dump'] = True
            elif any(c.lineno < dmp.lineno for dmp in dumps):
                self.err(c, 'get_conditions is evaluated before some dill.dump calls and after others')
        # mutations of the solver inside save(): none are modelled
        for n in ast.walk(fn):
            if isinstance(n, (ast.Assign, ast.AugAssign)):
                tg = n.targets if isinstance(n, ast.Assign) else [n.target]
                for t in tg:
                    if ast.unparse(t).startswith('self.') or ast.unparse(t).startswith('self['):
                        self.err(n, f'save() assigns to the solver: {ast.unparse(n)[:60]}')
        return {'entries': entries, 'touch': touch, 'line': dicts[0].lineno}

    # ------------------------------------------------------------------ effects of the save path
    PURE_METHODS = {'get_solution', 'state_dict', 'items', 'keys', 'values', 'copy', 'get', '__subclasses__', 'parameters',
                    'named_parameters', 'modules', 'children'}
    PURE_CALLEES = {'isinstance', 'len', 'int', 'float', 'str', 'repr', 'type', 'print', 'list', 'tuple', 'range', 'enumerate',
                    'getattr', 'hasattr', 'open', 'json.dumps', 'dill.dump', 'zip', 'sorted', 'id', 'callable',
                    'copy.deepcopy', 'deepcopy', 'copy.copy',                # return fresh objects
                    'np.linspace', 'np.ones', 'np.zeros', 'np.array', 'np.asarray', 'np.sort', 'np.arange', 'np.meshgrid',
                    'numpy.linspace', 'torch.linspace', 'torch.tensor', 'torch.ones', 'torch.zeros'}
    PURE_PREFIXES = ('inspect.', 'os.path.')
    PURE_ARG_METHODS = {'reshape', 'view', 'append', 'format', 'index', 'get'}     # <fresh object>.m(<owned value>)
    PRIVATE_RNG = {'random.Random', 'random.SystemRandom', 'np.random.default_rng', 'np.random.RandomState', 'numpy.random.default_rng',
                   'torch.Generator'}                                         # private streams: the global state is not touched
    TORCH_RNG = {'torch.rand', 'torch.randn', 'torch.randint', 'torch.randperm', 'torch.manual_seed', 'torch.seed', 'torch.normal',
                 'torch.rand_like', 'torch.randn_like', 'torch.set_rng_state', 'torch.bernoulli', 'torch.multinomial'}

    def root_of(self, e):
        """name an attribute / subscript chain hangs on; None if the chain starts at a call result or a literal"""
        while isinstance(e, (ast.Attribute, ast.Subscript)):
            e = e.value
        return e.id if isinstance(e, ast.Name) else None

    def chain_has_call(self, e):
        while isinstance(e, (ast.Attribute, ast.Subscript)):
            e = e.value
        return not isinstance(e, ast.Name)

    def owned_expr(self, e, aliases):
        return isinstance(e, (ast.Name, ast.Attribute, ast.Subscript)) and not self.chain_has_call(e) and self.root_of(e) in aliases

    def effects_of(self, fn, owned, kind, out, seen, mod_funcs, in_fork=False):
        """every call the function makes that may change state the solver owns (or a global RNG)"""
        if (fn.name, tuple(sorted(owned)), in_fork) in seen:
            return
        seen.add((fn.name, tuple(sorted(owned)), in_fork))
        aliases = set(owned)
        for _ in range(3):                                   # names bound to solver-owned objects without a call in between
            for n in ast.walk(fn):
                if isinstance(n, ast.Assign) and self.owned_expr(n.value, aliases):
                    for t in n.targets:
                        if isinstance(t, ast.Name):
                            aliases.add(t.id)
                if isinstance(n, (ast.For, ast.comprehension)) and any(isinstance(x, ast.Name) and x.id in aliases for x in ast.walk(n.iter)):
                    for x in ast.walk(n.target):
                        if isinstance(x, ast.Name):
                            aliases.add(x.id)
        norm = lambda e: ast.unparse(e)
        forked = set()                                       # nodes inside `with torch.random.fork_rng():` (torch RNG restored on exit)
        for n in ast.walk(fn):
            if isinstance(n, ast.With) and any(ast.unparse(i.context_expr) in ('torch.random.fork_rng()', 'torch.random.fork_rng(devices=[])')
                                               for i in n.items):
                for b in n.body:
                    forked |= {id(x) for x in ast.walk(b)}
        if in_fork:                                          # the caller runs this code inside a fork_rng block
            forked = {id(x) for x in ast.walk(fn)}
        sol_names = set()                                    # names bound to a solution object of the solver
        for n in ast.walk(fn):
            if isinstance(n, ast.Assign) and isinstance(n.value, ast.Call) and isinstance(n.value.func, ast.Attribute) \
                    and n.value.func.attr == 'get_solution' and self.root_of(n.value.func) in aliases:
                sol_names |= {t.id for t in n.targets if isinstance(t, ast.Name)}
        for n in ast.walk(fn):
            # a forward pass through the solver's networks (copies included): stochastic layers in training mode
            # draw from torch's global RNG
            if isinstance(n, ast.Call) and id(n) not in forked and (
                    (isinstance(n.func, ast.Call) and isinstance(n.func.func, ast.Attribute) and n.func.func.attr == 'get_solution'
                     and self.root_of(n.func.func) in aliases) or (isinstance(n.func, ast.Name) and n.func.id in sol_names)):
                out.append((kind, 'forward', n.lineno))
        for n in ast.walk(fn):
            # writes through an alias
            if isinstance(n, (ast.Assign, ast.AugAssign, ast.Delete)):
                tg = n.targets if not isinstance(n, ast.AugAssign) else [n.target]
                for t in tg:
                    if isinstance(t, (ast.Attribute, ast.Subscript)) and not self.chain_has_call(t) and self.root_of(t) in aliases:
                        out.append((kind, f'other:write {norm(t)}', n.lineno))
            if not isinstance(n, ast.Call):
                continue
            f, text = n.func, norm(n.func)
            if isinstance(f, ast.Attribute) and not self.chain_has_call(f) and self.root_of(f) in aliases:
                if f.attr in self.PURE_METHODS:
                    if f.attr == 'get_solution' and any(kw.arg == 'copy' and not (isinstance(kw.value, ast.Constant) and kw.value.value is True)
                                                        for kw in n.keywords) or (f.attr == 'get_solution' and n.args):
                        out.append((kind, f'other:{text} without copy=True', n.lineno))
                    continue
                base = norm(f.value)
                tag = None
                for key in ('train', 'valid'):
                    if f.attr == 'get_examples' and (base.endswith(f".generator['{key}']") or base.endswith(f"generator['{key}']")):
                        tag = f'draw:{key}'
                out.append((kind, tag or f'other:{text}()', n.lineno))
                continue
            if text in self.PRIVATE_RNG:
                continue
            if text.startswith('random.') or text in ('random',):
                out.append((kind, 'pyrandom', n.lineno))
                continue
            if text.startswith('np.random.') or text.startswith('numpy.random.'):
                out.append((kind, 'other:' + text + '()', n.lineno))
                continue
            if text in self.TORCH_RNG or (isinstance(f, ast.Attribute) and f.attr == 'get_examples'):
                # torch's global RNG (directly, or through a generator that is not the solver's own, e.g. a deep copy)
                if id(n) not in forked:
                    out.append((kind, 'torchrng', n.lineno))
                continue
            own_args = [a for a in list(n.args) + [kw.value for kw in n.keywords] if self.owned_expr(a, aliases)]
            if isinstance(f, ast.Name) and f.id in mod_funcs:
                g = mod_funcs[f.id]
                params = [p.arg for p in g.args.args]
                sub = set()
                for p, a in zip(params, n.args):
                    if self.owned_expr(a, aliases):
                        sub.add(p)
                for kw in n.keywords:
                    if kw.arg in params and self.owned_expr(kw.value, aliases):
                        sub.add(kw.arg)
                if sub:
                    self.effects_of(g, sub, kind, out, seen, mod_funcs, in_fork=id(n) in forked)
                continue
            if own_args and isinstance(f, ast.Attribute) and f.attr in self.PURE_ARG_METHODS and self.root_of(f) not in aliases:
                continue
            if own_args and not (text in self.PURE_CALLEES or text.startswith(self.PURE_PREFIXES)):
                out.append((kind, f'other:passes {norm(own_args[0])} to {text}', n.lineno))

    def save_effects(self):
        fn = self.method('PretrainedSolver', 'save')
        mod_funcs = {n.name: n for n in self.tree.body if isinstance(n, ast.FunctionDef)}
        dumps = [n.lineno for n in ast.walk(fn) if isinstance(n, ast.Call) and ast.unparse(n.func) == 'dill.dump']
        out, seen = [], set()
        # calls guarded by a test on the class name belong to that solver kind
        def walk(stmts, kind, fork):
            for s in stmts:
                if isinstance(s, ast.If):
                    ks = {k for k in KINDS if f"'{k}'" in ast.unparse(s.test)}
                    walk(s.body, ks.pop() if len(ks) == 1 else kind, fork)
                    walk(s.orelse, kind, fork)
                    self.scan_stmt(ast.Expr(value=s.test), fn, kind, out, seen, mod_funcs, fork)
                elif isinstance(s, (ast.For, ast.While, ast.With, ast.Try)):
                    inner = fork or (isinstance(s, ast.With) and any(
                        ast.unparse(i.context_expr) in ('torch.random.fork_rng()', 'torch.random.fork_rng(devices=[])') for i in s.items))
                    for blk in ('body', 'orelse', 'finalbody'):
                        walk(getattr(s, blk, []) or [], kind, inner)
                    for h in getattr(s, 'handlers', []):
                        walk(h.body, kind, inner)
                    hdr = [getattr(s, 'iter', None), getattr(s, 'test', None)] + [i.context_expr for i in getattr(s, 'items', [])]
                    for e in hdr:
                        if e is not None:
                            self.scan_stmt(ast.Expr(value=e), fn, kind, out, seen, mod_funcs, fork)
                else:
                    self.scan_stmt(s, fn, kind, out, seen, mod_funcs, fork)
        walk(fn.body, 'all', False)
        for kind, eff, line in out:
            pass
        helper_lines = [n.lineno for n in ast.walk(fn) if isinstance(n, ast.Call) and isinstance(n.func, ast.Name) and n.func.id in mod_funcs
                        and any(self.owned_expr(a, {'self'}) for a in list(n.args) + [kw.value for kw in n.keywords])]
        if dumps and any(l > min(dumps) for l in helper_lines):
            self.err(fn, 'a helper is called after dill.dump: effects after the dump are not modelled')
        res = []
        for kind, eff, line in out:
            if (kind, eff) not in res:
                res.append((kind, eff))
        return res

    def scan_stmt(self, s, fn, kind, out, seen, mod_funcs, fork=False):
        """effects of one statement of save() itself: wrap it into a pseudo-function sharing save's aliases"""
        pseudo = ast.FunctionDef(name=f'save@{getattr(s, "lineno", 0)}', args=fn.args, body=[s], decorator_list=[], lineno=getattr(s, 'lineno', 0))
        self.effects_of(pseudo, {'self'}, kind, out, seen, mod_funcs, in_fork=fork)

    # ------------------------------------------------------------------ load (symbolic run under the default config)
    def prov(self, e, env):
        """provenance string of an expression"""
        if isinstance(e, ast.Name):
            return env.get(e.id, f'expr:{e.id}')
        if isinstance(e, ast.Constant):
            return f'const:{e.value!r}'
        if isinstance(e, (ast.List, ast.Tuple)) and not e.elts:
            return 'const:[]'
        if isinstance(e, ast.Subscript):
            base = self.prov(e.value, env)
            if base == 'FILE' and isinstance(e.slice, ast.Constant) and isinstance(e.slice.value, str):
                return f'file:{e.slice.value}'
            if base.startswith('file:'):
                if isinstance(e.slice, ast.Constant) and isinstance(e.slice.value, str):
                    if base.endswith('.__dict__'):
                        return base[:-len('.__dict__')] + '.' + e.slice.value
                    return base + '.' + e.slice.value
                return base + '[' + ast.unparse(e.slice) + ']'
        if isinstance(e, ast.Attribute):
            base = self.prov(e.value, env)
            if base == 'CONFIG':
                return f'config:{e.attr}'
            if base.startswith('file:'):
                return base + '.' + e.attr
        if isinstance(e, ast.IfExp):
            tv = self.test(e.test, env)
            if tv is True:
                return self.prov(e.body, env)
            if tv is False:
                return self.prov(e.orelse, env)
        if isinstance(e, ast.BinOp) and isinstance(e.op, ast.Sub) and isinstance(e.right, ast.Constant) \
                and isinstance(e.right.value, int) and not isinstance(e.right.value, bool):
            left = self.prov(e.left, env)
            if not left.startswith('expr:'):
                return f'{left}-{e.right.value}'
        if isinstance(e, ast.Call) and isinstance(e.func, ast.Attribute) and e.func.attr == 'get' and not e.keywords \
                and self.prov(e.func.value, env) == 'FILE' and len(e.args) == 1 and isinstance(e.args[0], ast.Constant) \
                and isinstance(e.args[0].value, str):
            return f'fileget:{e.args[0].value}'        # None when the key is absent (older files)
        if isinstance(e, ast.Call) and isinstance(e.func, ast.Name) and e.func.id in ('len', 'range') and len(e.args) == 1 \
                and not e.keywords:
            inner = self.prov(e.args[0], env)
            if not inner.startswith('expr:'):
                return f'{e.func.id}({inner})'
        if isinstance(e, ast.Call):
            fb = self.prov(e.func, env)
            if fb == 'file:optimizer_class' and len(e.args) == 1 and not e.keywords and self.is_params_of(e.args[0], env, 'file:nets'):
                return 'relinked(file:optimizer_class'
            if isinstance(e.func, ast.Name) and e.func.id == 'tuple' and len(e.args) == 1:
                return 'tuple(' + self.prov(e.args[0], env) + ')'
        return 'expr:' + ast.unparse(e)

    def is_params_of(self, e, env, prov):
        """chain.from_iterable(n.parameters() for n in <nets>) with <nets> of the given provenance"""
        if not (isinstance(e, ast.Call) and ast.unparse(e.func) in ('chain.from_iterable', 'itertools.chain.from_iterable')
                and len(e.args) == 1 and not e.keywords and isinstance(e.args[0], (ast.GeneratorExp, ast.ListComp))):
            return False
        g = e.args[0]
        if len(g.generators) != 1 or g.generators[0].ifs or not isinstance(g.generators[0].target, ast.Name):
            return False
        v = g.generators[0].target.id
        return ast.unparse(g.elt) == f'{v}.parameters()' and isinstance(g.generators[0].iter, ast.Name) \
            and env.get(g.generators[0].iter.id) == prov

    def test(self, t, env):
        """True / False / None (depends on the file)"""
        if isinstance(t, ast.BoolOp):
            vals = [self.test(v, env) for v in t.values]
            if isinstance(t.op, ast.And):
                return False if False in vals else (None if None in vals else True)
            return True if True in vals else (None if None in vals else False)
        if isinstance(t, ast.Compare) and len(t.ops) == 1:
            l, r = self.prov(t.left, env), self.prov(t.comparators[0], env)
            op = t.ops[0]
            pos = isinstance(op, (ast.Eq, ast.Is))
            if not pos and not isinstance(op, (ast.NotEq, ast.IsNot)):
                return None
            if r == 'const:None':
                if l.startswith('config:'):
                    return pos                      # default SolverConfig(): every field is None
                if l == 'PATH':
                    return not pos
                if l.startswith('const:'):
                    return (l == 'const:None') == pos
                return None
            if l.startswith('const:') and r.startswith('const:'):
                return (l == r) == pos
        return None

    def solver_target(self, t, env):
        """`<new solver>.attr` / `<new solver>.attr['k']` -> "attr" / "attr['k']" """
        base = t
        while isinstance(base, (ast.Attribute, ast.Subscript)):
            base = base.value
        if isinstance(base, ast.Name) and env.get(base.id) == 'SOLVER' and not isinstance(t, ast.Name):
            return ast.unparse(t)[len(base.id) + 1:]
        return None

    def run(self, stmts, env, out, guard):
        for s in stmts:
            if isinstance(s, ast.Expr):
                if isinstance(s.value, ast.Constant):
                    continue
                c = s.value
                if isinstance(c, ast.Call):
                    f = ast.unparse(c.func)
                    if f == 'print':
                        continue
                    if isinstance(c.func, ast.Attribute) and c.func.attr == 'load_state_dict' and isinstance(c.func.value, ast.Name) \
                            and env.get(c.func.value.id) == 'relinked(file:optimizer_class' and len(c.args) == 1 and not c.keywords:
                        env[c.func.value.id] = env[c.func.value.id] + ',' + self.prov(c.args[0], env) + ')'
                        continue
                self.err(s, f'statement not accepted in load: {ast.unparse(s)[:80]}')
            elif isinstance(s, ast.Raise):
                out['raises'].append(guard)
                return 'raise'
            elif isinstance(s, ast.Return):
                out['returns'].append('solver' if isinstance(s.value, ast.Name) and env.get(s.value.id) == 'SOLVER'
                                      else (ast.unparse(s.value) if s.value else None))
                return 'return'
            elif isinstance(s, ast.With):
                it = s.items[0] if len(s.items) == 1 else None
                if it is not None and isinstance(it.context_expr, ast.Call) and ast.unparse(it.context_expr.func) == 'open' \
                        and len(it.context_expr.args) == 2 and ast.unparse(it.context_expr.args[1]) == "'rb'" \
                        and isinstance(it.optional_vars, ast.Name) and len(s.body) == 1 and isinstance(s.body[0], ast.Assign) \
                        and len(s.body[0].targets) == 1 and isinstance(s.body[0].targets[0], ast.Name) \
                        and ast.unparse(s.body[0].value) == f'dill.load({it.optional_vars.id})':
                    env[s.body[0].targets[0].id] = 'FILE'
                    continue
                self.err(s, 'unrecognised with-statement in load')
            elif isinstance(s, ast.Try):
                self.run(s.body, env, out, guard)
            elif isinstance(s, ast.Assign):
                if len(s.targets) != 1:
                    self.err(s, 'chained assignment in load')
                t = s.targets[0]
                if isinstance(t, ast.Name):
                    if isinstance(s.value, ast.Call) and ast.unparse(s.value.func) == 'cls':
                        if s.value.args:
                            self.err(s, 'positional constructor arguments')
                        kws = []
                        for kw in s.value.keywords:
                            if kw.arg is None:
                                self.err(s, '**kwargs in constructor call')
                            kws.append((kw.arg, self.prov(kw.value, env)))
                        out['ctors'].append((guard, kws, s.lineno))
                        env[t.id] = 'SOLVER'
                    else:
                        env[t.id] = self.prov(s.value, env)
                elif self.solver_target(t, env) is not None:
                    out['restores'].append((self.solver_target(t, env), self.prov(s.value, env), s.lineno))
                else:
                    self.err(s, f'assignment target not accepted in load: {ast.unparse(t)}')
            elif isinstance(s, ast.If):
                tv = self.test(s.test, env)
                if tv is True:
                    r = self.run(s.body, env, out, guard)
                elif tv is False:
                    r = self.run(s.orelse, env, out, guard)
                else:
                    g = ast.unparse(s.test)
                    e1, e2 = dict(env), dict(env)
                    r1 = self.run(s.body, e1, out, guard + [g])
                    r2 = self.run(s.orelse, e2, out, guard + ['not (' + g + ')'])
                    for k in set(e1) | set(e2):
                        a, b = e1.get(k), e2.get(k)
                        if r1 in ('raise', 'return'):
                            a = b
                        if r2 in ('raise', 'return'):
                            b = a
                        if a is None or b is None:       # unbound on one path (that path cannot use the name)
                            a = b = (a if b is None else b)
                        env[k] = a if a == b else f'{a}|{b}'
                    r = r1 if r1 == r2 else None
                if r in ('raise', 'return'):
                    return r
            else:
                self.err(s, f'statement not accepted in load: {type(s).__name__}')
        return None

    def load(self):
        fn = self.method('PretrainedSolver', 'load')
        if [a.arg for a in fn.args.args] != ['cls', 'path', 'name', 'config']:
            self.err(fn, 'signature of load changed')
        if not (fn.args.defaults and ast.unparse(fn.args.defaults[-1]) == 'SolverConfig()'):
            self.err(fn, 'default config is not SolverConfig()')
        cfgcls = next((n for n in self.tree.body if isinstance(n, ast.ClassDef) and n.name == 'SolverConfig'), None)
        if cfgcls is None:
            raise TranslationError(self.relpath, 0, 'C18 extractor: SolverConfig not found')
        for s in cfgcls.body:
            if not (isinstance(s, ast.Assign) and isinstance(s.value, ast.Constant) and s.value.value is None):
                self.err(s, 'SolverConfig default is not None')
        env = {'cls': 'CLS', 'path': 'PATH', 'name': 'const:None', 'config': 'CONFIG'}
        out = {'ctors': [], 'restores': [], 'raises': [], 'returns': []}
        self.run(fn.body, env, out, [])
        if out['returns'] != ['solver']:
            self.err(fn, f'load must return the new solver once, got {out["returns"]}')
        ctors = {}
        for guard, kws, line in out['ctors']:
            pos = [g for g in guard if not g.startswith('not (')]
            kinds = {k for g in pos for k in KINDS if f"'{k}'" in g or f'"{k}"' in g}
            if len(kinds) != 1 or len(pos) != 1:
                self.err(fn, f'cannot tell the solver kind of the constructor call at line {line} (guard {guard})')
            kind = kinds.pop()
            if kind in ctors:
                self.err(fn, f'two constructor calls for {kind}')
            ctors[kind] = kws
        if set(ctors) != set(KINDS):
            self.err(fn, f'constructor calls found for {sorted(ctors)}, expected {sorted(KINDS)}')
        restores = []
        for tgt, prov, line in out['restores']:
            restores.append((tgt, prov))
        return {'ctors': ctors, 'restores': restores}


def coq_str(s):
    return '"' + s.replace('"', '""') + '"'


def coq_pairs(pairs, indent='    '):
    return '[' + (';\n' + indent).join(f'({coq_str(a)}, {coq_str(b)})' for a, b in pairs) + ']'


def extract(repo):
    ex = Extractor(repo)
    gc, sv, ld = ex.get_conditions(), ex.save(), ex.load()
    effects = ex.save_effects()
    aliased = bool(gc['aliased'] and sv['touch']['called'] and sv['touch']['on_alias'])
    return {'aliased': aliased, 'writes_type': gc['writes_type'], 'replaces_fun': gc['replaces_fun'],
            'touch_before_dump': sv['touch']['before_dump'], 'save_dict': sv['entries'],
            'ctors': ld['ctors'], 'restores': ld['restores'], 'effects': effects,
            'lines': {'get_conditions_dict': gc.get('dict_line'), 'save_dict': sv['line']}}


HEADER = """(* GENERATED by tools/props/t_C18.py from {file} on every run -- do not edit.
   Facts about get_conditions / PretrainedSolver.save / PretrainedSolver.load that
   coq/model/Persist.v is parameterised by.  DESIGN.md section 7, C18. *)
From Coq Require Import String List.
From ND.model Require Import Persist.
Import ListNotations.
Local Open Scope string_scope.

"""


def emit(facts):
    b = lambda x: 'true' if x else 'false'
    ctor = ';\n   '.join(f'({coq_str(k)},\n    {coq_pairs(facts["ctors"][k])})' for k in KINDS)
    return HEADER.format(file=F) + f"""(* get_conditions binds its dictionary at line {facts['lines']['get_conditions_dict']}; save_dict literal at line {facts['lines']['save_dict']} *)
Definition get_conditions_aliased : bool := {b(facts['aliased'])}.
Definition get_conditions_writes_type : bool := {b(facts['writes_type'])}.
Definition get_conditions_replaces_functions : bool := {b(facts['replaces_fun'])}.
Definition get_conditions_before_dump : bool := {b(facts['touch_before_dump'])}.

Definition save_dict : list (string * string) :=
   {coq_pairs(facts['save_dict'], '    ')}.

Definition load_ctor : list (string * list (string * string)) :=
  [{ctor}].

Definition load_restores : list (string * string) :=
   {coq_pairs(facts['restores'], '    ')}.

(* every call on the save path (save itself, the get_sample_solution* preview helpers, get_generator,
   get_networks, ...) that is not a pure read of solver-owned objects, per solver kind:
   draw:train / draw:valid = <solver>.generator[..].get_examples(), pyrandom = the global `random`
   module, other:.. = anything else (not modelled: the theorems then fail) *)
Definition save_effects : list (string * string) :=
   {coq_pairs(facts['effects'], '    ')}.

Definition facts : srcfacts :=
  mkFacts get_conditions_aliased get_conditions_writes_type get_conditions_replaces_functions
          get_conditions_before_dump save_dict load_ctor load_restores save_effects.
"""


def generate(repo, outdir):
    """-> (ok, info)"""
    try:
        facts = extract(repo)
    except TranslationError as e:
        return False, {'error': str(e), 'file': e.file, 'line': e.line, 'target': 'solvers_utils'}
    text = emit(facts)
    os.makedirs(outdir, exist_ok=True)
    vpath = os.path.join(outdir, 'Gen_C18.v')
    old = open(vpath).read() if os.path.exists(vpath) else None
    if old != text:
        with open(vpath, 'w') as f:
            f.write(text)
    with open(os.path.join(outdir, 'Gen_C18.json'), 'w') as f:
        json.dump(facts, f)
    return True, {'facts': facts, 'vpath': vpath, 'changed': old != text}


def setup_generate():
    """entry point for ./check --setup"""
    import common
    with common.Lock():
        return generate(common.REPO, common.GEN)
