#!/venv/bin/python
"""C19 — provided networks are pointwise maps with the requested architecture.

Steps: regenerate Gen_C19.v (activation / monomial forwards, trainable flags) from networks.py,
re-check props/P_C19.v, then on the real modules:
  * architecture: layer types / shapes of every constructed FCNN / Resnet vs the Coq model
    model/Networks.v (evaluated inside Coq), vs pyfront's interpretation of the constructor
    source, and vs the property's own oracle (requested hidden layers, linear last layer,
    bias-free skip, deprecated arguments = documented replacement);
  * forward: net(x)[i] vs net(x[i:i+1]), row i unchanged when the other rows change,
    net(x) vs explicit composition of the module's own weights with the documented activation
    formulas;
  * activations / monomials: real modules vs documented formulas (oracle) and vs the generated
    terms (translation validation, float64 + in-kernel interval goals); trainable flags.
DESIGN.md section 7, C19."""
import json
import math
import os
import sys
import warnings

sys.path.insert(0, os.path.join(os.path.dirname(os.path.abspath(__file__)), '..'))
from common import Check, REPO
from pyfront import ir
from pyfront.interp import TranslationError, RaisedInSource
from props.t_C19 import TARGETS, MONO, interp_layers
from harness import enga
from harness.probes import dy

PRE = ('From Coq Require Import List Arith Bool.\nFrom ND.lib Require Import Expr.\n'
       'From ND.model Require Import Networks.\nImport ListNotations.\n')

ACTS = ['default', 'Tanh', 'SinActv', 'Swish', 'APTx', 'PReLU', 'Swish_t', 'APTx_t']
# stateful activations (own trainable parameters per instance): name -> (module class name, parameters per instance)
STATEFUL = {'PReLU': ('PReLU', 1), 'Swish_t': ('Swish', 1), 'APTx_t': ('APTx', 3)}


def act_class(torch, N, name):
    return {'default': None, 'Tanh': torch.nn.Tanh, 'SinActv': N.SinActv, 'Swish': N.Swish, 'APTx': N.APTx, 'PReLU': torch.nn.PReLU,
            'Swish_t': (lambda: N.Swish(trainable=True)), 'APTx_t': (lambda: N.APTx(trainable=True))}[name]


def act_params(m):
    """Current parameters of an activation module instance (for the explicit composition)."""
    out = {}
    for k in ('alpha', 'beta', 'gamma'):
        if hasattr(m, k):
            out[k] = float(getattr(m, k))
    if type(m).__name__ == 'PReLU':
        out['a'] = float(m.weight.detach().reshape(-1)[0])
    return out


def act_formula(name, x, params=None):
    """The documented formulas, written out independently of the library and of the model."""
    p = params or {}
    if name in ('default', 'Tanh'):
        return math.tanh(x)
    if name == 'SinActv':
        return math.sin(x)
    if name == 'PReLU':
        return max(0.0, x) + p.get('a', 0.25) * min(0.0, x)
    if name in ('Swish', 'Swish_t'):
        return x / (1.0 + math.exp(-(p.get('beta', 1.0) * x)))
    if name in ('APTx', 'APTx_t'):
        return (p.get('alpha', 1.0) + math.tanh(p.get('beta', 1.0) * x)) * p.get('gamma', 0.5) * x
    raise ValueError(name)


def observe_layers(torch, seq):
    out = []
    for m in seq:
        if isinstance(m, torch.nn.Linear):
            out.append(('L', int(m.in_features), int(m.out_features), m.bias is not None))
        else:
            out.append(('A', type(m).__name__))
    return out


def coq_opt(v):
    return 'None' if v is None else f'(Some {v}%nat)'


def coq_hidden(h):
    return 'None' if h is None else '(Some [' + '; '.join(f'{w}%nat' for w in h) + '])'


def coq_layers(obs):
    parts = []
    for l in obs:
        if l[0] == 'L':
            parts.append(f'Linear {l[1]} {l[2]} {"true" if l[3] else "false"}')
        else:
            parts.append('Act')
    return '[' + '; '.join(parts) + ']'


def expected_hidden(cfg):
    """Documented semantics, independent of the code: `hidden_units` wins; otherwise the
    deprecated pair (h, L) means L+1 hidden layers of width h (the historical constructor:
    Linear(in,h), L x Linear(h,h), Linear(h,out)); a missing h is 32, a missing L is 1; nothing
    given: (32, 32)."""
    if cfg['hidden'] is not None:
        return list(cfg['hidden'])
    h, L = cfg['nhu'], cfg['nhl']
    if h is None and L is None:
        return [32, 32]
    h = 32 if h is None else h
    L = 1 if L is None else L
    return [h] * (L + 1)


HIDDEN_KINDS = ['tuple', 'list', 'range', 'ndarray', 'genexp', 'map', 'iter', 'dictkeys', 'np_ints']


def make_hidden(kind, hidden):
    """The same widths in the requested container / number kind (one-shot iterators included)."""
    import numpy as np
    hidden = [int(w) for w in hidden]
    if kind == 'list':
        return list(hidden)
    if kind == 'range':
        if not hidden:
            return range(0)
        if hidden == list(range(hidden[0], hidden[0] + len(hidden))):
            return range(hidden[0], hidden[0] + len(hidden))
    if kind == 'ndarray':
        return np.array(hidden, dtype=np.int64)
    if kind == 'genexp':
        return (w for w in hidden)
    if kind == 'map':
        return map(int, [str(w) for w in hidden])
    if kind == 'iter':
        return iter(list(hidden))
    if kind == 'dictkeys' and len(set(hidden)) == len(hidden):
        return dict.fromkeys(hidden).keys()
    if kind == 'np_ints':
        return tuple(np.int64(w) if i % 2 == 0 else np.int32(w) for i, w in enumerate(hidden))
    return tuple(hidden)


def num(cfg, v):
    import numpy as np
    return np.int64(v) if (cfg.get('num_kind') == 'np' and v is not None) else v


def gen_arch_cfg(r, ci):
    cls = 'Resnet' if ci % 4 == 3 else 'FCNN'
    n_in, n_out = r.randint(1, 5), r.randint(1, 5)
    form = r.choice(['tuple', 'tuple', 'list', 'legacy_both', 'legacy_both', 'legacy_L', 'legacy_h', 'none', 'legacy_and_hidden']) \
        if cls == 'FCNN' else r.choice(['tuple', 'tuple', 'list', 'none'])
    wmax = r.choice([4, 16, 64])
    hidden = [r.randint(1, wmax) for _ in range(r.randint(0, 4))]
    kind = 'list' if form == 'list' else (r.choice(HIDDEN_KINDS) if ci % 2 == 0 else 'tuple')
    if kind == 'range':
        h0 = r.randint(1, max(1, wmax - 4))
        hidden = list(range(h0, h0 + len(hidden)))
    if kind == 'dictkeys':
        hidden = list(dict.fromkeys(hidden))
    cfg = {'cls': cls, 'n_in': n_in, 'n_out': n_out, 'act': r.choice(ACTS), 'form': form, 'nhu': None, 'nhl': None, 'hidden': None,
           'hidden_kind': kind, 'num_kind': 'np' if ci % 5 == 1 else 'int', 'actv_kind': r.choice(['class', 'class', 'lambda', 'partial'])}
    if form in ('tuple', 'list', 'legacy_and_hidden'):
        cfg['hidden'] = hidden
    if form in ('legacy_both', 'legacy_h', 'legacy_and_hidden'):
        cfg['nhu'] = r.randint(1, wmax)
    if form in ('legacy_both', 'legacy_L', 'legacy_and_hidden'):
        cfg['nhl'] = r.randint(0, 3)
    return cfg


def build_net(torch, N, cfg):
    import functools
    kw = {}
    if cfg['hidden'] is not None:
        kw['hidden_units'] = make_hidden(cfg.get('hidden_kind', 'tuple'), cfg['hidden'])
    if cfg['nhu'] is not None:
        kw['n_hidden_units'] = num(cfg, cfg['nhu'])
    if cfg['nhl'] is not None:
        kw['n_hidden_layers'] = num(cfg, cfg['nhl'])
    a = act_class(torch, N, cfg['act'])
    if a is not None:
        # the activation layer *constructor*: the class itself or any zero-argument factory of it
        ak = cfg.get('actv_kind', 'class')
        kw['actv'] = a if ak == 'class' else ((lambda: a()) if ak == 'lambda' else functools.partial(a))
    with warnings.catch_warnings():
        warnings.simplefilter('ignore')
        return getattr(N, cfg['cls'])(n_input_units=num(cfg, cfg['n_in']), n_output_units=num(cfg, cfg['n_out']), **kw)


def check_arch(ck, torch, N, cfg, cases, do_model=True):
    """Oracle on the real module + model / translator correspondence for one configuration."""
    key = f"{cfg['cls']}/{cfg['form']}"
    if cfg.get('hidden') is not None and cfg.get('hidden_kind', 'tuple') not in ('tuple', 'list'):
        key += f"/hidden_units={cfg['hidden_kind']}"
    try:
        net = build_net(torch, N, cfg)
    except Exception as e:
        ck.fail(f'{key}/constructor', f'{cfg["cls"]} constructor raised {type(e).__name__}: {e}', {'kind': 'arch', 'cfg': cfg})
        return None
    seq = net.NN if cfg['cls'] == 'FCNN' else net.residual.NN
    obs = observe_layers(torch, seq)
    hid = expected_hidden(cfg)
    aname = 'Tanh' if cfg['act'] == 'default' else STATEFUL.get(cfg['act'], (cfg['act'],))[0]
    units = [cfg['n_in']] + hid
    exp = []
    for i in range(len(hid)):
        exp += [('L', units[i], units[i + 1], True), ('A', aname)]
    exp.append(('L', units[-1], cfg['n_out'], True))
    inp = {'kind': 'arch', 'cfg': cfg}
    if obs != exp:
        what = 'deprecated size arguments do not build the documented replacement' if cfg['form'].startswith('legacy') and cfg['form'] != 'legacy_and_hidden' \
            else 'layer list is not the requested hidden layers + activation with a linear last layer'
        ck.fail(f'{key}/layers', f'{cfg["cls"]}: {what}', inp, expected=exp, actual=obs)
    if cfg['cls'] == 'Resnet':
        sk = net.skip_connection
        sk_obs = ('L', sk.in_features, sk.out_features, sk.bias is not None) if isinstance(sk, torch.nn.Linear) else ('?', type(sk).__name__)
        if sk_obs != ('L', cfg['n_in'], cfg['n_out'], False):
            ck.fail(f'{key}/skip', 'Resnet skip connection is not a bias-free Linear(n_in, n_out)', inp,
                    expected=('L', cfg['n_in'], cfg['n_out'], False), actual=sk_obs)
    else:
        sk_obs = None
    # ---- an independent module per entry: no module object appears twice in the Sequential
    seen = {}
    ids_obs = [seen.setdefault(id(mod), len(seen)) for mod in seq]
    if ids_obs != list(range(len(ids_obs))):
        ck.fail(f'{key}/shared-module', f'{cfg["cls"]}: a module object appears more than once in the Sequential (activation instance shared between layers)',
                inp, expected=list(range(len(ids_obs))), actual=ids_obs)
    # ---- parameters: the Linear weights, plus one independent parameter set per activation instance when the
    # requested activation is stateful (PReLU, trainable Swish / APTx); nothing else
    per_act = STATEFUL.get(cfg['act'], (None, 0))[1]
    n_lin = sum(1 for l in obs if l[0] == 'L') * 2 + (1 if cfg['cls'] == 'Resnet' else 0)
    n_exp = n_lin + per_act * len(hid)
    n_par = sum(1 for _ in net.parameters())
    if n_par != n_exp and obs == exp:
        ck.fail(f'{key}/parameter-count', f'{cfg["cls"]} with activation {cfg["act"]}: {n_par} parameter tensors, documented count {n_exp} '
                f'({n_lin} for the Linear layers + {per_act} per activation instance x {len(hid)} hidden layers)', inp, expected=n_exp, actual=n_par)
    # ---- after one optimiser step with generic gradients the per-layer activation parameters can differ
    if per_act and len(hid) >= 2 and obs == exp:
        acts = [mod for mod in seq if not isinstance(mod, torch.nn.Linear)]
        torch.manual_seed(12345 + len(hid))
        x = torch.randn(7, cfg['n_in'], dtype=torch.float64)
        opt = torch.optim.SGD(net.parameters(), lr=0.1)
        opt.zero_grad()
        (net(x) ** 2).sum().backward()
        opt.step()
        vals = [tuple(round(v, 12) for v in sorted(act_params(a).values())) for a in acts]
        if len(set(vals)) == 1:
            ck.fail(f'{key}/activation-parameters-tied', f'{cfg["cls"]} with activation {cfg["act"]}: after one SGD step with generic gradients every hidden layer has '
                    'identical activation parameters (one shared parameter set instead of one per layer)', inp, expected='per-layer values differ', actual=vals[:4])
    ck.add_case((cfg['cls'], cfg['n_in'], cfg['n_out'], cfg['form'], cfg['nhu'], cfg['nhl'], tuple(cfg['hidden'] or ()), cfg['act'],
                 cfg.get('hidden_kind'), cfg.get('num_kind'), cfg.get('actv_kind')),
                nontrivial=True)
    if not do_model:
        return net
    # ---- hand model inside Coq
    args = f"{cfg['n_in']} {cfg['n_out']} {coq_opt(cfg['nhu'])} {coq_opt(cfg['nhl'])} {coq_hidden(cfg['hidden'])}"
    label = json.dumps(cfg, sort_keys=True)
    ids_lit = '[' + '; '.join(f'{k}%nat' for k in ids_obs) + ']'
    if cfg['cls'] == 'FCNN':
        cases.append((label + ':ids', f'list_eqb Nat.eqb (module_ids (fcnn_init {args})) {ids_lit}'))
    else:
        cases.append((label + ':ids', f'list_eqb Nat.eqb (module_ids (fst (resnet_init {args}))) {ids_lit}'))
    if cfg['cls'] == 'FCNN':
        cases.append((label, f'layers_eqb (fcnn_init {args}) {coq_layers(obs)}'))
    else:
        skc = f'Linear {sk_obs[1]} {sk_obs[2]} {"true" if sk_obs[3] else "false"}' if sk_obs[0] == 'L' else 'Act'
        cases.append((label, f'layers_eqb (fst (resnet_init {args})) {coq_layers(obs)} && layer_eqb (snd (resnet_init {args})) ({skc})'))
    # ---- pyfront's reading of the constructor source
    try:
        hidden_arg = 'absent' if cfg['hidden'] is None else (list(cfg['hidden']) if cfg.get('hidden_kind') == 'list' else tuple(cfg['hidden']))
        src_layers, src_skip, src_ids = interp_layers(REPO, cfg['cls'], cfg['n_in'], cfg['n_out'], cfg['nhu'], cfg['nhl'], hidden_arg, with_ids=True)
        if src_ids != ids_obs:
            ck.broke('correspondence-broken', f'pyfront:{cfg["cls"]}.__init__',
                     f'module identity pattern read from the source {src_ids} differs from the constructed module {ids_obs} for {cfg}')
        src_obs = [(l[0], l[1], l[2], l[3]) if l[0] == 'L' else ('A', aname) for l in src_layers]
        ck.traces += 1
        if src_obs != obs or (cfg['cls'] == 'Resnet' and tuple(src_skip) != sk_obs):
            ck.broke('correspondence-broken', f'pyfront:{cfg["cls"]}.__init__',
                     f'source interpretation {src_obs} {src_skip} differs from the constructed module {obs} {sk_obs} for {cfg}')
    except (TranslationError, RaisedInSource) as e:
        ck.broke('translator-refusal', f'pyfront:{cfg["cls"]}.__init__', str(e))
    return net


def rand_rows(r, n, k):
    return [[dy(r, -10, 10, 4) for _ in range(k)] for _ in range(n)]


def compose(torch, net, cfg, xs):
    """Explicit composition of the module's own weights, in Python floats row by row."""
    seq = net.NN if cfg['cls'] == 'FCNN' else net.residual.NN
    aname = cfg['act']

    def lin(m, row):
        W = m.weight.detach().tolist()
        b = m.bias.detach().tolist() if m.bias is not None else [0.0] * len(W)
        return [math.fsum(w * v for w, v in zip(Wr, row)) + bb for Wr, bb in zip(W, b)]
    out = []
    for row in xs:
        h = list(row)
        for m in seq:
            if isinstance(m, torch.nn.Linear):
                h = lin(m, h)
            else:
                h = [act_formula(aname, v, act_params(m)) for v in h]
        if cfg['cls'] == 'Resnet':
            s = lin(net.skip_connection, row)
            h = [a + b for a, b in zip(s, h)]
        out.append(h)
    return out


def check_forward(ck, torch, N, cfg, r, tseed):
    torch.manual_seed(tseed)
    try:
        net = build_net(torch, N, cfg)
    except Exception:
        return                       # reported by check_arch
    key = f"{cfg['cls']}/{cfg['act']}"
    b = r.choice([1, 2, 3, 7, 33])
    xs = rand_rows(r, b, cfg['n_in'])
    inp = {'kind': 'forward', 'cfg': cfg, 'torch_seed': tseed, 'x': xs}
    x = torch.tensor(xs, dtype=torch.float64)
    try:
        y = net(x)
    except Exception as e:
        ck.fail(f'{key}/forward-raises', f'forward raised {type(e).__name__}: {e}', inp)
        return
    if tuple(y.shape) != (b, cfg['n_out']):
        ck.fail(f'{key}/shape', f'output shape {tuple(y.shape)} for input ({b}, {cfg["n_in"]}), expected ({b}, {cfg["n_out"]})', inp,
                expected=[b, cfg['n_out']], actual=list(y.shape))
        return
    yv = y.detach().tolist()
    scale = max(1.0, max(abs(v) for row in yv for v in row))
    # (1) explicit composition of the module's own weights
    ref = compose(torch, net, cfg, xs)
    for i in range(b):
        for j in range(cfg['n_out']):
            ck.traces += 1
            if not enga.close(yv[i][j], ref[i][j], scale, rel=1e-9):
                ck.fail(f'{key}/composition', 'net(x) differs from the explicit composition of its own layers (documented activation formula)',
                        dict(inp, row=i, col=j), expected=ref[i][j], actual=yv[i][j])
                return
    # (2) net(x)[i] == net(x[i:i+1])
    rows = list(range(b)) if b <= 3 else r.sample(range(b), 3)
    for i in rows:
        yi = net(x[i:i + 1]).detach().tolist()[0]
        if any(not enga.close(a, c, scale, rel=1e-9) for a, c in zip(yi, yv[i])):
            ck.fail(f'{key}/single-row', 'net(x)[i] differs from net(x[i:i+1])', dict(inp, row=i), expected=yi, actual=yv[i])
            return
    # (3) row i does not depend on the other rows
    if b > 1:
        i = rows[0]
        xs2 = rand_rows(r, b, cfg['n_in'])
        xs2[i] = xs[i]
        y2 = net(torch.tensor(xs2, dtype=torch.float64)).detach().tolist()
        if any(not enga.close(a, c, scale, rel=1e-9) for a, c in zip(y2[i], yv[i])):
            ck.fail(f'{key}/row-dependence', 'row i of the output changed when only the other input rows changed', dict(inp, row=i, x2=xs2),
                    expected=yv[i], actual=y2[i])
    ck.add_case(('fwd', cfg['cls'], cfg['n_in'], cfg['n_out'], tuple(cfg['hidden'] or ()), cfg['act'], b, tseed), nontrivial=b > 1 or bool(cfg['hidden']))


# ------------------------------------------------------------------------------- activations

def gen_act_case(r, ci):
    name = ['SinActv', 'Swish', 'APTx'][ci % 3]
    trainable = (ci // 3) % 2 == 1
    params = {}
    if name == 'Swish':
        params = {'beta': dy(r, -3, 3)} if ci % 5 else {}
    if name == 'APTx':
        params = {'alpha': dy(r, -3, 3), 'beta': dy(r, -3, 3), 'gamma': dy(r, -3, 3)} if ci % 5 else {}
    xs = rand_rows(r, r.choice([1, 2, 5]), r.choice([1, 3]))
    return {'kind': 'activation', 'name': name, 'trainable': trainable, 'params': params, 'x': xs}


def check_activation(ck, torch, N, case, res, goals, n_goals):
    name, params, trainable = case['name'], case['params'], case['trainable']
    key = f'{name}/{"trainable" if trainable else "fixed"}'
    try:
        with warnings.catch_warnings():
            warnings.simplefilter('ignore')
            mod = N.SinActv() if name == 'SinActv' else getattr(N, name)(trainable=trainable, **params)
            y = mod(torch.tensor(case['x'], dtype=torch.float64))
    except Exception as e:
        ck.fail(f'{key}/raises', f'{name} raised {type(e).__name__}: {e}', case)
        return
    yv = y.detach().tolist()
    # trainable flags
    pars = list(mod.named_parameters())
    want = {'SinActv': [], 'Swish': ['beta'], 'APTx': ['alpha', 'beta', 'gamma']}[name] if trainable else []
    got = sorted(n for n, p in pars if p.requires_grad)
    if got != sorted(want) or len(pars) != len(want):
        ck.fail(f'{key}/trainable', f'{name}(trainable={trainable}): trainable parameters are {[n for n, _ in pars]} (requires_grad: {got}), expected {want}',
                case, expected=want, actual=got)
    full = dict({'Swish': {'beta': 1.0}, 'APTx': {'alpha': 1.0, 'beta': 1.0, 'gamma': 0.5}}.get(name, {}), **params)
    tname = 'SinActv' if name == 'SinActv' else f'{name}_{"trainable" if trainable else "fixed"}'
    term = res[tname]['terms'][0] if res is not None and tname in res and 'terms' in res[tname] else None
    for i, row in enumerate(case['x']):
        for j, xv in enumerate(row):
            want_v = act_formula(name, xv, full)
            scale = max(1.0, abs(want_v))
            ck.traces += 1
            if not enga.close(yv[i][j], want_v, scale):
                ck.fail(f'{key}/formula', f'{name} does not compute its documented formula', dict(case, row=i, col=j), expected=want_v, actual=yv[i][j])
                return
            if term is not None:
                mv = ir.feval(term, {'x': xv}, full, {})
                if not enga.close(mv, yv[i][j], scale):
                    ck.broke('correspondence-broken', f'pyfront:{tname}', f'generated term gives {mv!r}, module gives {yv[i][j]!r} at x={xv} params={full}')
                    return
                if len(goals) < n_goals and i == 0 and j == 0:
                    goals.append(enga.interval_goal(f'{tname}#{len(goals)}', term, {'x': xv}, full, {}, yv[i][j], scale))
    ck.add_case(('act', name, trainable, tuple(sorted(params.items())), tuple(map(tuple, case['x']))))


# ------------------------------------------------------------------------------- MonomialNN

def gen_mono_case(r, ci):
    if ci % 3 == 0:
        deg = r.randint(1, 6)
    else:
        deg = [r.randint(0, 6) for _ in range(r.randint(1, 4))]
    return {'kind': 'monomial', 'degrees': deg, 'x': rand_rows(r, r.choice([1, 2, 5]), r.randint(1, 5))}


def check_monomial(ck, torch, N, case, cases):
    deg = case['degrees']
    key = 'MonomialNN/' + ('int' if isinstance(deg, int) else 'list')
    try:
        with warnings.catch_warnings():
            warnings.simplefilter('ignore')
            net = N.MonomialNN(deg if isinstance(deg, int) else tuple(deg))
            x = torch.tensor(case['x'], dtype=torch.float64)
            y = net(x)
    except Exception as e:
        ck.fail(f'{key}/raises', f'MonomialNN raised {type(e).__name__}: {e}', case)
        return
    dl = list(range(1, deg + 1)) if isinstance(deg, int) else list(deg)
    n, k = len(case['x']), len(case['x'][0])
    if tuple(y.shape) != (n, k * len(dl)):
        ck.fail(f'{key}/shape', f'MonomialNN output shape {tuple(y.shape)}, expected ({n}, {k * len(dl)})', case,
                expected=[n, k * len(dl)], actual=list(y.shape))
        return
    yv = y.detach().tolist()
    for i in range(n):
        for a, d in enumerate(dl):
            for j in range(k):
                want = case['x'][i][j] ** d
                ck.traces += 1
                if not enga.close(yv[i][a * k + j], want, abs(want)):
                    ck.fail(f'{key}/formula', 'MonomialNN: entry k*n_in+j of a row is not x_j ** degrees[k]', dict(case, row=i, k=a, j=j),
                            expected=want, actual=yv[i][a * k + j])
                    return
    for i in range(min(n, 2)):
        yi = net(x[i:i + 1]).detach().tolist()[0]
        if yi != yv[i]:
            ck.fail(f'{key}/single-row', 'MonomialNN(x)[i] differs from MonomialNN(x[i:i+1])', dict(case, row=i), expected=yi, actual=yv[i])
    ck.add_case(('mono', str(deg), n, k, tuple(map(tuple, case['x']))))
    arg = f'DegInt {deg}' if isinstance(deg, int) else 'DegList [' + '; '.join(f'{d}%nat' for d in deg) + ']'
    obs = '[' + '; '.join(f'{d}%nat' for d in net.degrees) + ']'
    cases.append((json.dumps({'monomial_init': deg}), f'match monomial_init ({arg}) with Some l => list_eqb Nat.eqb l {obs} | None => false end'))


def check_mono_reject(ck, torch, N, cases):
    for deg in (0, ()):
        try:
            N.MonomialNN(deg)
            ck.fail('MonomialNN/empty-accepted', 'MonomialNN accepts an empty degree list', {'kind': 'monomial-reject', 'degrees': deg})
            acc = True
        except ValueError:
            acc = False
        arg = 'DegInt 0' if deg == 0 else 'DegList []'
        cases.append((f'monomial_init {deg!r}', f'match monomial_init ({arg}) with None => {"false" if acc else "true"} | Some _ => {"true" if acc else "false"} end'))


def check_mono_generated(ck, torch, N, res, r):
    if res is None:
        return
    for name, (deg, w) in MONO.items():
        if name not in res or 'terms' not in res[name]:
            continue
        with warnings.catch_warnings():
            warnings.simplefilter('ignore')
            net = N.MonomialNN(deg)
        xs = rand_rows(r, 3, w)
        yv = net(torch.tensor(xs, dtype=torch.float64)).detach().tolist()
        terms = res[name]['terms']
        if len(terms) != len(yv[0]):
            ck.broke('correspondence-broken', f'pyfront:{name}', f'{len(terms)} generated columns, module returns {len(yv[0])}')
            continue
        for i, row in enumerate(xs):
            venv = {f'x{j}': row[j] for j in range(w)}
            for c, t in enumerate(terms):
                mv = ir.feval(t, venv, {}, {})
                ck.traces += 1
                if not enga.close(mv, yv[i][c], abs(mv)):
                    ck.broke('correspondence-broken', f'pyfront:{name}', f'column {c}: term {mv!r} module {yv[i][c]!r} at {row}')
                    break


# ------------------------------------------------------------------------------- driver

def run(ck, res, n_arch, n_fwd, n_act, n_mono, n_goals, do_model=True):
    torch = enga.import_repo()
    from neurodiffeq import networks as N
    cases, goals = [], []
    dist = {}
    r = ck.rng('arch', n_arch)
    # fixed corner configurations first, then random ones
    corner = [
        {'cls': 'FCNN', 'n_in': 1, 'n_out': 1, 'act': 'default', 'form': 'none', 'nhu': None, 'nhl': None, 'hidden': None, 'hidden_kind': 'tuple'},
        {'cls': 'FCNN', 'n_in': 2, 'n_out': 3, 'act': 'Swish', 'form': 'tuple', 'nhu': None, 'nhl': None, 'hidden': [], 'hidden_kind': 'tuple'},
        {'cls': 'FCNN', 'n_in': 5, 'n_out': 5, 'act': 'APTx', 'form': 'tuple', 'nhu': None, 'nhl': None, 'hidden': [64, 1, 64, 2], 'hidden_kind': 'tuple'},
        {'cls': 'FCNN', 'n_in': 2, 'n_out': 3, 'act': 'SinActv', 'form': 'legacy_both', 'nhu': 5, 'nhl': 0, 'hidden': None, 'hidden_kind': 'tuple'},
        {'cls': 'FCNN', 'n_in': 2, 'n_out': 3, 'act': 'Tanh', 'form': 'legacy_both', 'nhu': 7, 'nhl': 3, 'hidden': None, 'hidden_kind': 'tuple'},
        {'cls': 'FCNN', 'n_in': 3, 'n_out': 1, 'act': 'default', 'form': 'legacy_L', 'nhu': None, 'nhl': 2, 'hidden': None, 'hidden_kind': 'tuple'},
        {'cls': 'FCNN', 'n_in': 3, 'n_out': 1, 'act': 'default', 'form': 'legacy_h', 'nhu': 9, 'nhl': None, 'hidden': None, 'hidden_kind': 'tuple'},
        {'cls': 'Resnet', 'n_in': 4, 'n_out': 2, 'act': 'Swish', 'form': 'tuple', 'nhu': None, 'nhl': None, 'hidden': [8, 3], 'hidden_kind': 'tuple'},
        {'cls': 'Resnet', 'n_in': 1, 'n_out': 1, 'act': 'default', 'form': 'none', 'nhu': None, 'nhl': None, 'hidden': None, 'hidden_kind': 'tuple'},
        {'cls': 'Resnet', 'n_in': 2, 'n_out': 5, 'act': 'APTx', 'form': 'tuple', 'nhu': None, 'nhl': None, 'hidden': [], 'hidden_kind': 'tuple'},
    ]
    for kind in HIDDEN_KINDS:
        hid = [3, 4, 5] if kind == 'range' else [5, 7, 2]
        for cls_, extra in (('FCNN', {}), ('Resnet', {}), ('FCNN', {'nhu': 9, 'nhl': 1, 'form': 'legacy_and_hidden'})):
            c = {'cls': cls_, 'n_in': 2, 'n_out': 3, 'act': 'default', 'form': 'list' if kind == 'list' else 'tuple', 'nhu': None, 'nhl': None,
                 'hidden': list(hid), 'hidden_kind': kind, 'num_kind': 'np' if kind in ('ndarray', 'np_ints') else 'int', 'actv_kind': 'class'}
            c.update(extra)
            corner.append(c)
    corner.append({'cls': 'FCNN', 'n_in': 2, 'n_out': 3, 'act': 'SinActv', 'form': 'legacy_both', 'nhu': 5, 'nhl': 2, 'hidden': None,
                   'hidden_kind': 'tuple', 'num_kind': 'np', 'actv_kind': 'lambda'})
    corner.append({'cls': 'Resnet', 'n_in': 3, 'n_out': 1, 'act': 'Swish', 'form': 'tuple', 'nhu': None, 'nhl': None, 'hidden': [],
                   'hidden_kind': 'genexp', 'num_kind': 'int', 'actv_kind': 'partial'})
    for act_ in STATEFUL:
        for cls_, hid_ in (('FCNN', [3, 3]), ('Resnet', [4, 2, 5]), ('FCNN', [6])):
            corner.append({'cls': cls_, 'n_in': 2, 'n_out': 3, 'act': act_, 'form': 'tuple', 'nhu': None, 'nhl': None, 'hidden': list(hid_),
                           'hidden_kind': 'tuple', 'num_kind': 'int', 'actv_kind': 'class' if act_ == 'PReLU' else 'lambda'})
    corner.append({'cls': 'FCNN', 'n_in': 1, 'n_out': 1, 'act': 'PReLU', 'form': 'legacy_both', 'nhu': 4, 'nhl': 2, 'hidden': None,
                   'hidden_kind': 'tuple', 'num_kind': 'int', 'actv_kind': 'partial'})
    cfgs = corner + [gen_arch_cfg(r, ci) for ci in range(n_arch)]
    for ci, cfg in enumerate(cfgs):
        dist[f"arch:{cfg['cls']}/{cfg['form']}"] = dist.get(f"arch:{cfg['cls']}/{cfg['form']}", 0) + 1
        if cfg.get('hidden') is not None:
            dist[f"hidden_kind:{cfg.get('hidden_kind')}"] = dist.get(f"hidden_kind:{cfg.get('hidden_kind')}", 0) + 1
        check_arch(ck, torch, N, cfg, cases, do_model=do_model)
        if ci < 4:
            ck.sample({'kind': 'arch', 'cfg': cfg})
    rf = ck.rng('fwd', n_fwd)
    fw = [c for c in cfgs if c['form'] in ('tuple', 'list', 'none')]
    for fi in range(n_fwd):
        cfg = fw[fi % len(fw)]
        dist[f"fwd:{cfg['cls']}/{cfg['act']}"] = dist.get(f"fwd:{cfg['cls']}/{cfg['act']}", 0) + 1
        check_forward(ck, torch, N, cfg, rf, tseed=1000 + fi)
    ra = ck.rng('act', n_act)
    for ci in range(n_act):
        case = gen_act_case(ra, ci)
        dist[f"act:{case['name']}"] = dist.get(f"act:{case['name']}", 0) + 1
        check_activation(ck, torch, N, case, res, goals, n_goals)
        if ci < 3:
            ck.sample(case)
    rm = ck.rng('mono', n_mono)
    for ci in range(n_mono):
        case = gen_mono_case(rm, ci)
        dist['mono'] = dist.get('mono', 0) + 1
        check_monomial(ck, torch, N, case, cases)
        if ci < 2:
            ck.sample(case)
    check_mono_reject(ck, torch, N, cases)
    check_mono_generated(ck, torch, N, res, rm)
    ck.extra.setdefault('input_distribution', {}).update(dist)
    return cases, goals


def replay(ck, path):
    """Re-run exactly the recorded input on the implementation."""
    data = json.load(open(path))
    inp = data.get('input') or {}
    torch = enga.import_repo()
    from neurodiffeq import networks as N
    kind = inp.get('kind')
    if kind == 'arch':
        check_arch(ck, torch, N, inp['cfg'], [], do_model=False)
    elif kind == 'forward':
        import random
        check_forward(ck, torch, N, inp['cfg'], random.Random(0), inp['torch_seed'])
        # the recorded x is re-used for the composition oracle
        torch.manual_seed(inp['torch_seed'])
        net = build_net(torch, N, inp['cfg'])
        y = net(torch.tensor(inp['x'], dtype=torch.float64)).detach().tolist()
        ref = compose(torch, net, inp['cfg'], inp['x'])
        if any(not enga.close(a, b, 1.0 + abs(b)) for ra, rb in zip(y, ref) for a, b in zip(ra, rb)):
            ck.fail(data.get('key', 'replay'), 'net(x) differs from the explicit composition of its own layers', inp, expected=ref, actual=y)
    elif kind == 'activation':
        check_activation(ck, torch, N, inp, None, [], 0)
    elif kind == 'monomial':
        check_monomial(ck, torch, N, inp, [])
    elif kind == 'monomial-reject':
        check_mono_reject(ck, torch, N, [])
    else:
        print(f'replay: nothing to re-run on the implementation for {path} (kind={data.get("kind")})')
    ck.rule = f'replay of {path}'
    ck.add_case(('replay', path))
    ck.sample(inp)


def main():
    ck = Check('C19')
    ck.rule = ('cases = FCNN/Resnet configurations (n_in, n_out in 1..5; hidden_units of length 0..4, widths 1..64, given as tuple, list, range, '
               'ndarray, generator expression, map, iter, dict keys view or numpy ints; sizes as int or numpy int; actv as class or zero-argument factory; the '
               'deprecated argument forms; every shipped activation) + forward batches (sizes 1,2,3,7,33, dyadic inputs in [-10,10]) + '
               'activation modules (random dyadic parameters, trainable or not) + MonomialNN (int or list degrees); distinct = distinct '
               'configuration/input tuples; non-trivial = at least one hidden layer or more than one row')
    if ck.replay:
        # a replay re-runs one recorded input; it must not replace the evidence of a full run
        evp = os.path.join(os.path.dirname(os.path.abspath(__file__)), '..', '..', 'evidence', 'C19.json')
        old = open(evp).read() if os.path.exists(evp) else None
        replay(ck, ck.replay)
        try:
            ck.finish()
        finally:
            if old is not None:
                open(evp, 'w').write(old)
    ck.step_hygiene()
    res = ck.step_generate('Gen_C19', TARGETS)
    if res is not None:
        ck.step_prove('P_C19')
    T = ck.thorough()
    cases, goals = run(ck, res, n_arch=1200 if T else 150, n_fwd=600 if T else 120, n_act=600 if T else 90, n_mono=200 if T else 40,
                       n_goals=40 if T else 8)
    bad = ck.step_cases('arch', PRE, cases)
    for lbl in bad:
        ck.broke('correspondence-broken', 'model:Networks.v', f'model and constructed module differ for {lbl}')
    if res is not None:
        ck.step_interval_goals('act', goals)
    if ck.broken and not ck.failures:
        ck.notes.append('search: re-ran the implementation oracle on 5x more inputs after a broken obligation')
        run(ck, None, n_arch=750, n_fwd=300, n_act=450, n_mono=200, n_goals=0, do_model=False)
    ck.finish(
        trusted_extra=['Interval (interval tactic) for the in-kernel activation goals',
                       'hand model coq/model/Networks.v (validated each run against the real modules and against pyfront\'s reading of the constructors)',
                       'modelled not verified: IEEE-754 rounding, nn.Linear / nn.Sequential / element-wise tensor ops acting row by row, torch.cat'],
        assumptions=['row-wise theorems assume each Linear / activation module maps a batch row by row (Section hypothesis; checked numerically on the real modules)',
                     'activation parameters are arbitrary reals; inputs arbitrary reals (theorems), [-10,10] dyadic (numeric validation)'])


if __name__ == '__main__':
    main()
