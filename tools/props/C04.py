#!/venv/bin/python
"""C04 — a training epoch optimises exactly the user's residual loss on its batches.
Engine B: theorems of props/P_C04.v (routing for arbitrary tensors/nets/conditions; draws, recorded loss,
optimiser step, purity of validation, trajectory independence for arbitrary components) about
coq/model/Solver.v; correspondence = integer toy problem through all five real solver classes vs the model in
Coq; plus the property's own oracle on the spied observations (independent recomputation with Fractions of
every unknown, every loss entry, every accumulated gradient and SGD step).  DESIGN.md section 7, C04."""
import copy
import json
import os
import sys

sys.path.insert(0, os.path.join(os.path.dirname(os.path.abspath(__file__)), '..'))
from common import Check
from harness import solver_toy as T
from props import t_C04
from fractions import Fraction as Fr


def near(exact, obs, rel=Fr(1, 10 ** 9)):
    exact, obs = Fr(exact), Fr(obs)
    return abs(exact - obs) <= rel * (1 + abs(exact))


def property_route(cls, sig, cols):
    """the property's routing: all coordinates, or the leading ones a FIXED-arity condition accepts (spherical)"""
    if cls == 'Spherical' and isinstance(sig, int):
        return cols[:sig]
    return cols


def oracle(ck, sc, rec, label):
    inp = {'scenario': sc}
    cfg = sc['cfg']
    cls = cfg['cls']
    nf = len(sc['conds'])
    ncoords = sc['ncoords']
    pos_e = pos_s = 0
    for sn, seg, prev in T.epoch_contexts(rec):
        evs = rec['evals'][pos_e:sn['n_evals']]
        steps = rec['steps'][pos_s:sn['n_steps']]
        pos_e, pos_s = sn['n_evals'], sn['n_steps']
        ev = [e for e in seg if e[0] not in ('loss', 'cb')]
        conds = [dict(T.cond_model(c), tag=(t if T.cond_model(c)['coef'] else 0)) for c, t in zip(sc['conds'], prev['tags'])]
        lid = prev['lid']
        # ---- draws: exactly n_batches[phase] per phase, training first, none from the other generator
        tr_part = [e for e in ev if T_phase(e) == 'train']
        va_part = [e for e in ev if T_phase(e) == 'valid']
        for ph, part in (('train', tr_part), ('valid', va_part)):
            nd = sum(1 for e in part if e[0] == 'draw')
            if nd != prev['nb'][ph]:
                ck.fail(f'draws/{ph}-count', f'the {ph} epoch drew {nd} batches from the {ph} generator, n_batches[{ph}] = {prev["nb"][ph]}',
                        inp, expected=prev['nb'][ph], actual=nd)
        if ev != tr_part + va_part:
            ck.fail('draws/interleaved', 'training and validation events of one epoch are interleaved', inp, actual=ev[:12])
        # ---- event pattern of the training phase
        nbt = prev['nb']['train']
        if nbt and not prev['closure']:
            want = [('zero',)] + [x for k in [e[2] for e in tr_part if e[0] == 'draw'] for x in (('draw', 'train', k), ('eval', 'train', k))] + [('step',)]
            if tr_part != want:
                ck.fail('plain_step/events', 'plain optimiser: the training epoch is not zero_grad; (draw; evaluate)*n; step', inp,
                        expected=want[:14], actual=tr_part[:14])
        if nbt and prev['closure']:
            if sum(1 for e in tr_part if e[0] == 'cstep') != nbt or any(e[0] == 'step' for e in tr_part):
                ck.fail('closure_step/count', 'closure optimiser: not exactly one optimiser call per batch', inp,
                        expected=nbt, actual=sum(1 for e in tr_part if e[0] == 'cstep'))
        # ---- every closure evaluation: what the equations received
        by_batch = {}
        for e in evs:
            batch = rec['draws'][e['phase']][e['k']]
            cols = [[Fr(x) for x in c] for c in batch]
            w = [Fr(x) for x in e['w']]
            exp_fs = [T.ref_enforce(w[cfg['netof'][i]], cfg['kappa'][cfg['netof'][i]], conds[i], property_route(cls, conds[i]['sig'], cols))
                      for i in range(nf)]
            exp_tail = ([cols[0]] + [cols[1 + j] for j in cfg['idx']]) if cls == 'Bundle' else cols
            got = e['args']
            if len(got) != nf + len(exp_tail):
                ck.fail('equations/arity', f'the equations received {len(got)} arguments', inp, expected=nf + len(exp_tail), actual=len(got))
                continue
            for i in range(nf):
                if not all(near(a, b) for a, b in zip(exp_fs[i], got[i])):
                    variadic_sph = cls == 'Spherical' and conds[i]['sig'] == 'var'
                    key = 'funcs_routing/spherical-variadic' if variadic_sph else 'funcs_routing/value'
                    ck.fail(key, (f'unknown {i} is not condition {i} enforced on network {i} at the batch coordinates'
                                  + (' (SolverSpherical passes only r to a variadic condition)' if variadic_sph else '')),
                            inp, expected=[float(x) for x in exp_fs[i]], actual=got[i])
            for j, colv in enumerate(exp_tail):
                if not all(near(a, b) for a, b in zip(colv, got[nf + j])):
                    key = 'bundle_routing/params' if cls == 'Bundle' and j >= 1 else 'equations/coords'
                    ck.fail(key, f'argument {nf + j} of the equations is not the expected coordinate / bundle parameter', inp,
                            expected=[float(x) for x in colv], actual=got[nf + j])
            if any(tuple(sh) != (len(cols[0]), 1) for sh in e['shapes']):
                ck.fail('equations/shape', 'an argument of the equations is not an (n, 1) column', inp, actual=e['shapes'])
            by_batch.setdefault((e['phase'], e['k']), []).append(w)
        # ---- recorded losses: mean over the batches (+ additional loss) at the evaluation parameters
        for ph in ('train', 'valid'):
            draws = [e[2] for e in ev if e[0] == 'draw' and e[1] == ph]
            if not draws:
                continue
            series = rec['history'][f'{ph}_loss']
            k = sn['lens'][f'{ph}_loss']
            if k == 0 or any((ph, d) not in by_batch for d in draws):
                continue
            vals = [T.ref_loss(cfg, lid, conds, by_batch[(ph, d)][-1], rec['draws'][ph][d]) for d in draws]
            mean = sum(vals) / len(draws)
            if not near(mean, series[k - 1]):
                ck.fail(f'loss_is_mean/{ph}', f'{ph}_loss entry is not the mean over the epoch\'s batches of loss_fn + additional_loss', inp,
                        expected=float(mean), actual=series[k - 1])
        # ---- the optimiser step(s)
        if nbt and not prev['closure'] and steps and lid <= 3:
            st = steps[-1]
            draws = [e[2] for e in tr_part if e[0] == 'draw']
            w0 = [Fr(x) for x in st['w_before']]
            g = [sum(col) for col in zip(*[T.ref_grad(cfg, lid, conds, w0, rec['draws']['train'][d]) for d in draws])]
            got_g = [Fr(0) if x is None else Fr(x) for x in st['grad']]
            if len(steps) != 1:
                ck.fail('plain_step/count', f'{len(steps)} optimiser steps in one training epoch', inp, expected=1, actual=len(steps))
            if not all(near(a, b) for a, b in zip(g, got_g)):
                ck.fail('plain_step/gradient', 'the gradient handed to the optimiser is not the sum over this epoch\'s batches of the loss gradients',
                        inp, expected=[float(x) for x in g], actual=st['grad'])
            elif st['kind'] == 'sgd':
                want = [a - Fr(st['lr']) * b for a, b in zip(w0, g)]
                if not all(near(a, b) for a, b in zip(want, st['w_after'])):
                    ck.fail('plain_step/update', 'parameters after the epoch are not one SGD step on the accumulated gradient', inp,
                            expected=[float(x) for x in want], actual=st['w_after'])
        # ---- validation changes no parameter
        w_after_train = steps[-1]['w_after'] if steps else None
        for e in evs:
            if e['phase'] == 'valid' and w_after_train is not None and e['w'] != w_after_train:
                ck.fail('valid_epoch_pure/weights', 'parameters changed during / before the validation evaluations of the epoch', inp,
                        expected=w_after_train, actual=e['w'])
                break
        acts_theta = any(it['act']['kind'] == 'set_theta' for cb in sc['ops'][sn['fit']]['cbs'] for it in cb)
        if w_after_train is not None and not acts_theta and sn['w'] != w_after_train:
            ck.fail('valid_epoch_pure/after', 'parameters after the validation epoch differ from the ones after the training step', inp,
                    expected=w_after_train, actual=sn['w'])
    # ---- nothing (a solution object, get_residuals, get_internals, ...) may switch the parameters' gradients off
    for sn in rec['epochs'] + [f['pre'] for f in rec['fits']] + [rec['final']]:
        if not all(sn.get('trainable', [True])):
            ck.fail('solution_calls/freeze-parameters', 'a network parameter no longer requires grad (after get_solution / get_residuals / '
                    'a Solution object was created): later epochs record a loss but the optimiser moves nothing', inp,
                    expected=[True] * len(sn['trainable']), actual=sn['trainable'])
            break
    # ---- loss_fn was handed (residuals (n, n_eq), all funcs, all coordinates)
    for e in rec['log']:
        if e[0] == 'loss' and (e[2] != nf or e[3] != ncoords or e[4][1] != cfg['neq']):
            ck.fail('loss_fn/arguments', 'loss_fn did not receive (residuals (n, n_eq), n_funcs functions, all coordinates)', inp,
                    expected=(nf, ncoords, cfg['neq']), actual=e[2:])
            break


def T_phase(e):
    if e[0] in ('draw', 'eval'):
        return e[1]
    return 'train' if e[0] in ('zero', 'step', 'cstep') else None


def trajectory_oracle(ck, sc, rec):
    """same scenario with a different amount of validation: the weights after every epoch and the training
    history must coincide (callbacks here are scripted on the local epoch only, hence validation-blind)"""
    if any(it['act']['kind'] == 'set_nb' for o in sc['ops'] if o['op'] == 'fit' for cb in o['cbs'] for it in cb):
        return
    sc2 = copy.deepcopy(sc)
    sc2['nbv'] = 0 if sc['nbv'] else 2
    rec2 = T.run_scenario(sc2)
    w1 = [s['w'] for s in rec['epochs']]
    w2 = [s['w'] for s in rec2['epochs']]
    if w1 != w2 or rec['history']['train_loss'] != rec2['history']['train_loss']:
        ck.fail('trajectory/depends-on-validation', f'the parameter trajectory / training history changes when n_batches_valid goes from {sc["nbv"]} to {sc2["nbv"]}',
                {'scenario': sc, 'n_batches_valid_2': sc2['nbv']}, expected=w1[:6], actual=w2[:6])


def regression_scenarios():
    rec_cb = [[{'when': None, 'act': {'kind': 'record'}}]]
    f9 = {'cfg': {'cls': 'Spherical', 'kappa': [1], 'netof': [0], 'neq': 1, 'idx': [], 'ext': False}, 'w0': [0.5],
          'conds': [{'kind': 'var', 'tag': 5}], 'ncoords': 3, 'nmetrics': 0, 'lid': 0, 'loss_form': 'none', 'nbt': 1, 'nbv': 1,
          'opt': {'kind': 'sgd', 'lr': 0.25}, 'train_script': [[[1, 2], [2, 0], [3, 1]]], 'valid_script': [[[2, 2], [1, 1], [0, 3]]],
          'ops': [{'op': 'fit', 'max_epochs': 1, 'cbs': rec_cb}]}
    reads = {'cfg': {'cls': 'S1D', 'kappa': [1], 'netof': [0], 'neq': 1, 'idx': [], 'ext': False}, 'w0': [0.5],
             'conds': [{'kind': 'var', 'tag': 5}], 'ncoords': 1, 'nmetrics': 0, 'lid': 0, 'loss_form': 'none', 'nbt': 1, 'nbv': 1,
             'opt': {'kind': 'sgd', 'lr': 0.25}, 'train_script': [[[1, 2]], [[0, 3]]], 'valid_script': [[[2, 2]]],
             'ops': [{'op': 'fit', 'max_epochs': 2, 'cbs': rec_cb},
                     {'op': 'get_solution', 'copy': False, 'best': False},
                     {'op': 'eval', 'sol': 0, 'shape': [2], 'coords': [[1, 2]], 'as': 'tensor', 'to_numpy': False, 'no_reshape': False},
                     {'op': 'residuals', 'best': False, 'shape': [2], 'coords': [[1, 2]], 'as': 'ndarray', 'to_numpy': True, 'no_reshape': False},
                     {'op': 'act', 'act': {'kind': 'get_internals'}},
                     {'op': 'fit', 'max_epochs': 2, 'cbs': rec_cb}]}
    bundle = {'cfg': {'cls': 'Bundle', 'kappa': [1, 2], 'netof': [0, 1], 'neq': 2, 'idx': [2, 0, 2], 'ext': True}, 'w0': [0.5, -0.25],
              'conds': [{'kind': 'var', 'tag': 5}, {'kind': 'none', 'tag': 0}], 'ncoords': 4, 'nmetrics': 1, 'lid': 0, 'loss_form': 'none',
              'nbt': 2, 'nbv': 1, 'opt': {'kind': 'sgd', 'lr': 0.25},
              'train_script': [[[1, 2], [2, 0], [3, 1], [-1, 2]], [[0, 1], [1, 1], [2, -2], [3, 0]]],
              'valid_script': [[[2, 2], [1, 1], [0, 3], [1, -1]]], 'ops': [{'op': 'fit', 'max_epochs': 2, 'cbs': rec_cb}]}
    # closure optimisers on batches that carry autograd history (outputs of indexing, as ResampleGenerator / BatchGenerator /
    # FilterGenerator produce them): one closure step per batch, several closure evaluations on the SAME batch
    key = 'closure-optimiser/raises/generator-with-autograd-history'
    graph = dict(reads, opt={'kind': 'script', 'lr': 0.25, 'counts': [2, 3, 2, 2]}, nbt=2, gen_kind='index', raise_key=key,
                 ops=[{'op': 'fit', 'max_epochs': 2, 'cbs': rec_cb}])
    real = [(f'fixed-closure-{g}-generator', dict(reads, opt={'kind': 'lbfgs', 'lr': 0.5, 'max_iter': 3}, gen_kind=g, raise_key=key,
                                                 ops=[{'op': 'fit', 'max_epochs': 2, 'cbs': rec_cb}]), None)
            for g in ('resample', 'batch', 'filter')]
    return [('fixed-F9-spherical-variadic', f9, True), ('bundle-eq-param-index', bundle, True), ('reads-between-fits', reads, True),
            ('fixed-closure-indexed-batches', graph, True)] + real


def main():
    ck = Check('C04')
    ck.rule = ('scenario = solver class (all five) x 1..3 unknowns x shared/separate nets x condition kinds (variadic, fixed arity, overriding '
               'enforce, NoCondition) x n_batches_train 1..3 x n_batches_valid 0..3 x loss (callable sum / callable squares / None | \'l2\' | '
               'MSELoss exact; \'l1\' | L1Loss by trace) x additional_loss on/off x optimiser (SGD, scripted closure optimiser exact; Adam, '
               'LBFGS by trace + oracle) x arbitrary eq_param_index x up to 4 fit() calls with stop / loss / optimiser changes; '
               'distinct = distinct (label, configuration); all recorded values compared with the Coq model; oracle = independent '
               'recomputation with Fractions of every unknown, equation argument, loss entry, accumulated gradient and SGD step')
    ck.step_hygiene()
    # regenerate coq/gen/Gen_C04.v from the current solvers.py (fail-closed); P_C04 proves the generated
    # definitions equal to the model's, so a source change that alters them breaks the proof
    if t_C04.step_generate(ck):
        ck.step_prove('P_C04')
    camp = T.Campaign(ck, 'C04', oracle)
    if ck.replay:
        payload = json.load(open(ck.replay))
        sc = payload.get('input', {}).get('scenario')
        if sc:
            rec = camp.add('replay', sc, coq=False)
            if rec and payload.get('key', '').startswith('trajectory'):
                trajectory_oracle(ck, sc, rec)
        ck.finish()
    for label, sc, exact in regression_scenarios():
        if exact is None:
            camp.add(label, sc, coq=False)          # real library generators (random points): oracle only
        else:
            camp.add(label, sc, exact)
    r = ck.rng('scenarios')
    n = 1260 if ck.thorough() else 84
    for i in range(n):
        if i % 6 == 5:
            sc = T.gen_scenario(r, opt_kinds=('adam', 'lbfgs'), cb_actions=('stop', 'set_loss'), lids=(0, 1, 4, 3), max_epochs=(0, 4),
                                nmetrics=(0, 1), n_fits=(1, 3))
            rec = camp.add(f'trace#{i}', sc, exact=False)
        else:
            # every third scenario interleaves calls that must only READ the solver (get_solution in all copy/best combinations,
            # evaluations, get_residuals, get_internals) with the fits: the parameters must keep moving exactly as modelled
            reads = i % 3 == 1
            # every fourth scenario draws batches of DIFFERENT sizes inside one epoch with n_batches >= 2 (variable-size
            # generators such as FilterGenerator): the recorded loss is the mean over the BATCHES of loss_fn, not a mean
            # weighted by the number of points (seeded change C04/i)
            ragged = i % 4 == 2 and not reads
            sc = T.gen_scenario(r, opt_kinds=('sgd', 'script', 'sgd'), cb_actions=('stop', 'set_loss', 'set_opt'),
                                between_actions=('get_internals', 'set_loss') if reads else (('set_loss',) if i % 5 == 0 else ()),
                                lids=(0, 1) if (reads or ragged) else (0, 1, 0, 2, 3), max_epochs=(1, 4) if (reads or ragged) else (0, 5),
                                nmetrics=(0, 2), variadic_spherical=(i % 3 != 0), sol_ops=reads, n_fits=(2, 4) if reads else (1, 4),
                                ragged=ragged, **({'nbt': (2, 3), 'nbv': (0, 3)} if ragged else {}))
            if sc['opt']['kind'] == 'script' and i % 2 == 0:
                sc['gen_kind'] = 'index'            # batches with autograd history under a closure optimiser
                sc['raise_key'] = 'closure-optimiser/raises/generator-with-autograd-history'
            rec = camp.add(f'exact#{i}', sc, exact=True)
        if rec and i % 3 == 0:
            trajectory_oracle(ck, sc, rec)
    # a learnable coefficient k OUTSIDE solver.nets, used inside the equations and registered only with the user's optimiser
    # (SGD / Adam over the net weights + [k]): the step must move EVERY parameter the optimiser owns by the accumulated gradient.
    # Oracle only (the Coq toy instance has no such parameter): independent recomputation with Fractions of gradient and SGD step.
    for i in range(n // 7):
        sc = T.gen_scenario(r, opt_kinds=('sgd', 'sgd', 'adam'), cb_actions=('stop', 'set_loss'), lids=(0, 1), max_epochs=(1, 4),
                            nmetrics=(0, 1), n_fits=(1, 3))
        sc['cfg']['extra_k'] = True
        sc['extra_k'] = r.randint(-8, 8) / 4
        camp.add(f'extra-param#{i}', sc, coq=False)
    camp.correspond()
    if ck.broken and not ck.failures:
        ck.notes.append('search: a broken obligation without a failing input -> the oracle alone was run on 4x more scenarios')
        r2 = ck.rng('search')
        for i in range(4 * n):
            rg = i % 2 == 0
            sc = T.gen_scenario(r2, opt_kinds=('sgd', 'script', 'lbfgs'), cb_actions=('stop', 'set_loss', 'set_opt'), lids=(0, 1) if rg else (0, 1, 3),
                                ragged=rg, **({'nbt': (2, 3), 'nbv': (0, 3)} if rg else {}))
            rec = camp.add(f'search#{i}', sc, coq=False)
            if rec:
                trajectory_oracle(ck, sc, rec)
    camp.finish_dist()
    ck.finish(
        trusted_extra=['coq/model/Solver.v is hand-written; tied to solvers.py by this correspondence (toy problem through the public '
                       'constructors of all five solver classes, every recorded value compared in Coq)',
                       'modelled not verified: gradient accumulation by torch.autograd (forward-mode dual numbers in the toy instance), '
                       'optimiser arithmetic (abstract opt_step / closure_opt; SGD and the scripted closure optimiser are exercised exactly), '
                       'IEEE rounding, inspect.signature'],
        assumptions=['n_batches_train >= 1 for the loss / step theorems (n_batches = 0 skips the phase)',
                     'for the trajectory theorem callbacks are validation-blind (their decisions depend only on what training reads)',
                     'in the spherical solver a fixed-arity condition receives the leading coordinates it accepts, a variadic one all of them'])


if __name__ == '__main__':
    main()
