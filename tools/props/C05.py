#!/venv/bin/python
"""C05 — best-model tracking: lowest loss is the running min; best nets produced it.
Engine B: theorems of props/P_C05.v about coq/model/Solver.v (any strict weak order on loss values, any
callbacks / op sequences); correspondence = integer toy problem through the real solver classes vs the model
in Coq (forced ties, non-monotone trajectories, loss / optimiser swapped and live weights mutated by
callbacks); plus the property's own oracle on the observations.  DESIGN.md section 7, C05."""
import json
import os
import sys

sys.path.insert(0, os.path.join(os.path.dirname(os.path.abspath(__file__)), '..'))
from common import Check, coqc_file, COQ
from harness import solver_toy as T
from props import t_C04
from fractions import Fraction


def oracle(ck, sc, rec, label):
    """C05 on the implementation's observations: running minimum, earliest-argmin frozen snapshot, reproduction."""
    inp = {'scenario': sc}
    cfg = sc['cfg']
    nbv0 = sc['nbv']
    if any(it['act']['kind'] == 'set_nb' for o in sc['ops'] if o['op'] == 'fit' for cb in o['cbs'] for it in cb) or \
            any(o['op'] == 'act' and o['act']['kind'] == 'set_nb' for o in sc['ops']):
        return      # C05 is stated for validation either enabled or disabled throughout
    ph = 'valid' if nbv0 > 0 else 'train'
    series = rec['history'][f'{ph}_loss']
    pos_e = 0
    epochs = []          # per epoch: weights at the tracked evaluations, batches, loss id, tags, closure flag
    for sn, seg, prev in T.epoch_contexts(rec):
        evs = rec['evals'][pos_e:sn['n_evals']]
        pos_e = sn['n_evals']
        draws = [e[2] for e in seg if e[0] == 'draw' and e[1] == ph]
        epochs.append({'w_eval': [ev['w'] for ev in evs if ev['phase'] == ph], 'draws': draws, 'lid': prev['lid'], 'kappa': prev.get('kappa'),
                       'tags': prev['tags'], 'closure': prev['closure'], 'sn': sn})
        k = sn['lens'][f'{ph}_loss']
        prefix = series[:k]
        if not prefix:
            if sn['lowest'] is not None or sn['best'] is not None:
                ck.fail('best_inv/none', 'lowest_loss / best_nets set although no tracked loss was recorded', inp)
            continue
        if len(prefix) != len(epochs):
            continue     # a phase was skipped (cannot happen with fixed n_batches >= 1); nothing to compare
        lo = min(prefix)
        if sn['lowest'] != lo:
            ck.fail('best_inv/lowest-not-min', f'lowest_loss is not the minimum of the {ph} losses recorded so far', inp,
                    expected=lo, actual=sn['lowest'])
            continue
        arg = prefix.index(lo)                      # earliest epoch attaining the minimum
        ep = epochs[arg]
        novalid_closure = (ph == 'train' and ep['closure'])
        w_then = ep['w_eval'][-1] if ep['w_eval'] else None
        if sn['best'] is None:
            ck.fail('best_inv/best-none', 'best_nets is None although a loss was tracked', inp)
        elif w_then is not None and sn['best'] != w_then:
            later = [i for i in range(arg + 1, len(prefix)) if prefix[i] == lo and epochs[i]['w_eval'] and epochs[i]['w_eval'][-1] == sn['best']]
            if novalid_closure:
                key = 'best_snapshot/closure-novalid'
                what = ('closure optimiser with n_batches_valid = 0: best_nets holds the parameters AFTER the optimiser step, not the '
                        'ones the tracked training loss was computed with')
            elif later:
                key, what = 'best_inv/not-earliest', 'best_nets is the snapshot of a LATER epoch that ties the minimum (not the earliest)'
            else:
                key, what = 'best_inv/best-not-snapshot', ('best_nets are not the networks as they were when the lowest loss was computed '
                                                          '(not a frozen copy / wrong epoch)')
            ck.fail(key, what, inp, expected={'epoch': arg + 1, 'weights': w_then}, actual=sn['best'])
        # ---- frozen copy also of the state OUTSIDE state_dict (a plain attribute used in forward)
        if sn.get('best_kappa') is not None and ep.get('kappa') is not None and sn['best_kappa'] != ep['kappa']:
            ck.fail('best_inv/stale-state-outside-state_dict', 'best_nets do not carry the non-state_dict state (plain attribute used in forward) '
                    'the networks had when the lowest loss was computed', inp, expected=ep['kappa'], actual=sn['best_kappa'])
        # ---- reproduction: mean over that epoch's batches of the loss with best_nets == lowest_loss
        if sn['best'] is not None and ep['draws'] and sc['lid'] <= 3 and ep['lid'] <= 3:
            conds = [dict(T.cond_model(c), tag=(t if T.cond_model(c)['coef'] else 0)) for c, t in zip(sc['conds'], ep['tags'])]
            bcfg = dict(cfg, kappa=sn['best_kappa']) if sn.get('best_kappa') else cfg        # what best_nets actually compute with
            vals = [T.ref_loss(bcfg, ep['lid'], conds, [Fraction(x) for x in sn['best']], rec['draws'][ph][d]) for d in ep['draws']]
            mean = sum(vals) / len(vals)
            if abs(mean - Fraction(lo)) > Fraction(1, 10 ** 9) * (1 + abs(mean)):
                key = 'best_reproduces/closure-novalid' if novalid_closure else 'best_reproduces/mismatch'
                ck.fail(key, 're-evaluating the loss with best_nets on the batches of the epoch that produced lowest_loss does not reproduce it'
                        + (' (closure optimiser, validation disabled: snapshot taken after the step)' if novalid_closure else ''),
                        inp, expected=lo, actual=float(mean))
        # ---- frozen unless strictly lower
        if prev.get('lowest') is not None:
            if sn['lowest'] == prev['lowest'] and sn['best'] != prev['best']:
                ck.fail('best_frozen/changed', 'best_nets changed although no strictly lower loss occurred', inp,
                        expected=prev['best'], actual=sn['best'])
            if sn['lowest'] > prev['lowest']:
                ck.fail('best_frozen/increased', 'lowest_loss increased', inp, expected=prev['lowest'], actual=sn['lowest'])
    fin = rec['final']
    if series and fin['lowest'] is not None and fin['lowest'] != min(series):
        ck.fail('best_inv/final', 'final lowest_loss is not the minimum of the tracked history', inp, expected=min(series), actual=fin['lowest'])


def regression_scenarios():
    base = {'cfg': {'cls': 'S1D', 'kappa': [1], 'netof': [0], 'neq': 1, 'idx': [], 'ext': False}, 'w0': [0.5],
            'conds': [{'kind': 'var', 'tag': 5}], 'ncoords': 1, 'nmetrics': 0, 'lid': 0, 'loss_form': 'none', 'nbt': 1, 'nbv': 0,
            'train_script': [[[1, 2]], [[0, 3]]], 'valid_script': [[[2, 2]]]}
    rec_cb = [[{'when': None, 'act': {'kind': 'record'}}]]
    f7 = dict(base, opt={'kind': 'script', 'lr': 0.25, 'counts': [1, 1]}, ops=[{'op': 'fit', 'max_epochs': 2, 'cbs': rec_cb}])
    # forced tie: a neutral validation batch (loss independent of the weights) while training moves the weights
    tie = dict(base, nbv=1, opt={'kind': 'sgd', 'lr': 0.25}, valid_script=[[[0, -2]]],
               ops=[{'op': 'fit', 'max_epochs': 4, 'cbs': rec_cb}])
    # the REAL neurodiffeq.callbacks.SetLossFn under a real PeriodLocal condition fires after epoch 2; the validation batch is
    # neutral (its loss does not depend on the weights), and the loss installed later is the LARGER one: the minimum stays early
    cfg, conds, vb = base['cfg'], [T.cond_model(c) for c in base['conds']], [[0, -2]]
    l0, l1 = T.ref_loss(cfg, 0, conds, [0], vb), T.ref_loss(cfg, 1, conds, [0], vb)
    lo_id, hi_id = (0, 1) if l0 < l1 else (1, 0)
    real = dict(base, nbv=1, lid=lo_id, opt={'kind': 'sgd', 'lr': 0.25}, valid_script=[vb],
                ops=[{'op': 'fit', 'max_epochs': 5, 'cbs': [[{'when': None, 'act': {'kind': 'real_set_loss', 'lid': hi_id, 'reset': False,
                                                                                     'cond': {'type': 'period', 'period': 2, 'offset': 0}}}],
                                                            [{'when': None, 'act': {'kind': 'real_set_opt', 'reset': True,
                                                                                     'opt': {'kind': 'sgd', 'lr': 0.125},
                                                                                     'cond': {'type': 'period', 'period': 3, 'offset': 1}}}]] + rec_cb}])
    # the REAL MonitorCallback (MetricsMonitor, to_callback()) and ReportCallback watch a run whose losses are negative: they may
    # change NOTHING of the solver
    mon = dict(base, nbv=1, opt={'kind': 'sgd', 'lr': 0.25},
               ops=[{'op': 'fit', 'max_epochs': 4, 'cbs': [[{'when': None, 'act': {'kind': 'real_monitor', 'which': 'to_callback', 'check_every': 2}}],
                                                           [{'when': None, 'act': {'kind': 'real_monitor', 'which': 'metrics', 'check_every': 1,
                                                                                    'cond': {'type': 'period', 'period': 1, 'offset': 0}}}],
                                                           [{'when': None, 'act': {'kind': 'real_report', 'cond': {'type': 'first'}}}]] + rec_cb}])
    # the network's plain attribute `kappa` (used in forward, NOT in state_dict) is changed by a callback between two improvements
    kap = dict(base, nbv=1, opt={'kind': 'sgd', 'lr': 0.25},
               ops=[{'op': 'fit', 'max_epochs': 4, 'cbs': [[{'when': 1, 'act': {'kind': 'set_kappa', 'kappa': [3]}},
                                                            {'when': 3, 'act': {'kind': 'set_kappa', 'kappa': [-2]}}]] + rec_cb}])
    return [('known-F7-closure-novalid', f7, True), ('forced-tie', tie, True), ('real-SetLossFn-SetOptimizer', real, True),
            ('real-MonitorCallback', mon, True), ('state-outside-state_dict', kap, None)] + tiny_improvement_scenarios(base, rec_cb)


def tiny_improvement_scenarios(base, rec_cb):
    """a user loss returning SCRIPTED float64 values: new strict minima lower by 1 ulp, 1e-14, 1e-12, 1e-9, 5e-8, 1e-7, 1e-5
    relative (with set-backs in between): the running minimum is exact, not approximate.  Oracle only."""
    import math
    out = []
    for start, nbv in ((1000.0, 1), (-3.0, 1), (0.75, 0)):
        vals, v = [], start
        for rel in (None, 1e-5, 'up', 1e-7, 5e-8, 'up', 1e-9, 1e-12, 'up', 1e-14, None, None, 'up', None):
            if rel == 'up':
                vals.append(v + abs(v) * 1e-3)
                continue
            v = math.nextafter(v, -math.inf) if rel is None else min(math.nextafter(v, -math.inf), v - abs(v) * rel)
            vals.append(v)
        script = [x for val in vals for x in ((val, val) if nbv else (val,))]       # train call, then valid call, per epoch
        sc = dict(base, nbv=nbv, lid=5, loss_script=script, opt={'kind': 'sgd', 'lr': 0.25},
                  ops=[{'op': 'fit', 'max_epochs': len(vals) // 2, 'cbs': rec_cb}, {'op': 'fit', 'max_epochs': len(vals) - len(vals) // 2, 'cbs': rec_cb}])
        out.append((f'tiny-improvements-{start}-nbv{nbv}', sc, None))
    return out


def main():
    ck = Check('C05')
    ck.rule = ('scenario = solver class x 1..3 unknowns x shared/separate nets x n_batches_valid = 0 | 1..3 (fixed per run) x optimiser '
               '(SGD / scripted closure exact; Adam / LBFGS by trace + oracle) x up to 4 fit() calls; callbacks stop, swap the loss '
               'function, swap the optimiser, overwrite the live weights; half of the runs use weight-independent ("neutral") '
               'validation/training batches so that equal losses recur while the weights move (forced ties) and scripted batches '
               'make the loss non-monotone; distinct = distinct (label, configuration); every recorded value is compared with the Coq model')
    ck.step_hygiene()
    # regenerate coq/gen/Gen_C04.v from the current solvers.py (fail-closed); P_C05 proves the generated
    # definitions equal to the model's, so a source change that alters them breaks the proof
    if t_C04.step_generate(ck):
        ck.step_prove('P_C05')
    ok, _ = coqc_file(os.path.join(COQ, 'findings', 'F_C05_closure.v'), timeout=120)
    ck.notes.append('findings/F_C05_closure.v (refutation witness of a recorded finding) ' + ('compiles' if ok else 'no longer compiles'))
    camp = T.Campaign(ck, 'C05', oracle)
    if ck.replay:
        payload = json.load(open(ck.replay))
        sc = payload.get('input', {}).get('scenario')
        if sc:
            camp.add('replay', sc, coq=False)
        ck.finish()
    for label, sc, exact in regression_scenarios():
        if exact is None:
            camp.add(label, sc, coq=False)          # scripted loss values: not expressible in the toy model, oracle only
        else:
            camp.add(label, sc, exact)
    r = ck.rng('scenarios')
    n = 1200 if ck.thorough() else 80
    ties = 0
    for i in range(n):
        nbv = (0, 0) if i % 2 == 0 else (1, 3)
        if i % 7 == 6:
            sc = T.gen_scenario(r, opt_kinds=('adam', 'lbfgs'), cb_actions=('stop', 'set_loss', 'set_theta'), nbv=nbv, lids=(0, 1, 4, 3),
                                max_epochs=(1, 5), nmetrics=(0, 0))
            camp.add(f'trace#{i}', sc, exact=False)
            continue
        tie = i % 3 != 2
        sc = T.gen_scenario(r, opt_kinds=('sgd', 'script', 'sgd'),
                            cb_actions=('stop', 'set_loss', 'set_opt', 'set_theta', 'real_set_loss', 'real_set_opt', 'real_set_loss')
                            + (('real_monitor', 'real_report', 'real_stop', 'real_monitor') if i % 5 == 3 else ()),
                            between_actions=('set_theta', 'set_loss', 'set_opt') if i % 4 == 1 else (), nbv=nbv,
                            lids=(0, 1) if tie else (0, 1, 2, 3), tie=tie, max_epochs=(1, 6), nmetrics=(0, 1))
        rec = camp.add(f'exact#{i}', sc, exact=True)
        if rec:
            tr = rec['history']['valid_loss' if sc['nbv'] else 'train_loss']
            ties += len(tr) - len(set(tr))
    # networks with state outside state_dict changed by callbacks between improvements (oracle only: kappa is a constant of the
    # Coq toy instance)
    for i in range(n // 8):
        sc = T.gen_scenario(r, opt_kinds=('sgd', 'script', 'sgd'), cb_actions=('stop', 'set_kappa', 'set_kappa', 'set_loss'),
                            nbv=(0, 0) if i % 2 == 0 else (1, 3), lids=(0, 1), max_epochs=(2, 6), nmetrics=(0, 0))
        camp.add(f'kappa#{i}', sc, coq=False)
    camp.dist['ties_forced'] = ties
    camp.correspond()
    if ck.broken and not ck.failures:
        ck.notes.append('search: a broken obligation without a failing input -> the oracle alone was run on 4x more scenarios')
        r2 = ck.rng('search')
        for i in range(4 * n):
            camp.add(f'search#{i}', T.gen_scenario(r2, opt_kinds=('sgd', 'script'), cb_actions=('stop', 'set_loss', 'set_opt', 'set_theta'),
                                                   nbv=(0, 0) if i % 2 else (1, 3), tie=i % 3 != 2, lids=(0, 1)), coq=False)
    camp.finish_dist()
    ck.finish(
        trusted_extra=['coq/model/Solver.v is hand-written; tied to solvers.py by this correspondence (toy problem through the public '
                       'constructors of all five solver classes, every recorded value compared in Coq)',
                       'modelled not verified: copy.deepcopy (an independent equal value), torch.autograd, optimiser arithmetic, IEEE rounding'],
        assumptions=['loss values are totally pre-ordered by < (no NaN), as in the property text',
                     'validation is either enabled or disabled throughout a run for the history theorems (tracked_is_*_history); '
                     'best_inv / best_frozen / best_reproduces hold for arbitrary n_batches changes on the ghost list of tracked epochs'])


if __name__ == '__main__':
    main()
