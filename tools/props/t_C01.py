"""pyfront targets for C01 (ODE conditions).  One target per (class, method, configuration mode)."""
from pyfront.gen import Target
from pyfront.interp import NetSym, FunSym, SymInt

F = 'neurodiffeq/conditions.py'
P = lambda n: ('par', n)
V = lambda n: ('var', n)


def ivp(prime, method, unit=False):
    def b(I):
        c = I.instantiate('IVP', t_0=P('t_0'), u_0=P('u_0'), u_0_prime=P('u_0_prime') if prime else None)
        if unit:
            c.attrs['ith_unit'] = SymInt('k')      # what set_impose_on(k) stores
        if method == 'enforce':
            return I.call_method(c, 'enforce', NetSym('N', width=2 if unit else 1), V('t'))
        return I.call_method(c, 'parameterize', V('o'), V('t'))
    return b


def dbvp(method, unit=False):
    def b(I):
        c = I.instantiate('DirichletBVP', t_0=P('t_0'), u_0=P('u_0'), t_1=P('t_1'), u_1=P('u_1'))
        if unit:
            c.attrs['ith_unit'] = SymInt('k')
        if method == 'enforce':
            return I.call_method(c, 'enforce', NetSym('N', width=2 if unit else 1), V('t'))
        return I.call_method(c, 'parameterize', V('o'), V('t'))
    return b


def debvp(mode, unit=False):
    kw = {'dd': dict(x_min_val=P('a'), x_max_val=P('b')), 'dn': dict(x_min_val=P('a'), x_max_prime=P('b')),
          'nd': dict(x_min_prime=P('a'), x_max_val=P('b')), 'nn': dict(x_min_prime=P('a'), x_max_prime=P('b'))}[mode]

    def b(I):
        c = I.instantiate('DoubleEndedBVP1D', x_min=P('x_min'), x_max=P('x_max'), **kw)
        if unit:
            c.attrs['ith_unit'] = SymInt('k')
        return I.call_method(c, 'enforce', NetSym('N', width=2 if unit else 1), V('x'))
    return b


def debvp_param(mode):
    """parameterize with the raw output at the evaluation point as a leaf `o` and the extra
    forward passes as a separate symbol M at the fresh end leaves."""
    kw = {'dd': dict(x_min_val=P('a'), x_max_val=P('b')), 'dn': dict(x_min_val=P('a'), x_max_prime=P('b')),
          'nd': dict(x_min_prime=P('a'), x_max_val=P('b')), 'nn': dict(x_min_prime=P('a'), x_max_prime=P('b'))}[mode]
    M = lambda v: ('fun', 'M', (0,), (('avar', v),))

    def b(I):
        c = I.instantiate('DoubleEndedBVP1D', x_min=P('x_min'), x_max=P('x_max'), **kw)
        extra = {'dd': [], 'dn': [M('x1'), V('x1')], 'nd': [M('x0'), V('x0')],
                 'nn': [M('x0'), V('x0'), M('x1'), V('x1')]}[mode]
        return I.call_method(c, 'parameterize', V('o'), V('x'), *extra)
    return b


def debvp_invalid(kw):
    def b(I):
        # the constructor's validity test uses the TRUTHINESS of the values (`x_min_val and x_min_prime`): two
        # conditions at one end are rejected at construction only when their values are non-zero (with zeros
        # the object is built and enforce() raises NotImplementedError later).  The rejection targets fix
        # "non-zero"; this is outside C01's statement (inadmissible specifications) and recorded in DESIGN 12.4.
        I.par_truth = {k: True for k in kw}
        I.instantiate('DoubleEndedBVP1D', x_min=P('x_min'), x_max=P('x_max'), **{k: P(k) for k in kw})
        return ('cst', 0)
    return b


TARGETS = [
    Target('IVP_value', F, ivp(False, 'enforce'), leaves=['t'], pars=['t_0', 'u_0'], funs=['N']),
    Target('IVP_prime', F, ivp(True, 'enforce'), leaves=['t'], pars=['t_0', 'u_0', 'u_0_prime'], funs=['N']),
    Target('IVP_value_param', F, ivp(False, 'parameterize'), leaves=['t', 'o'], pars=['t_0', 'u_0']),
    Target('IVP_prime_param', F, ivp(True, 'parameterize'), leaves=['t', 'o'], pars=['t_0', 'u_0', 'u_0_prime']),
    Target('IVP_value_unit', F, ivp(False, 'enforce', unit=True), leaves=['t'], pars=['t_0', 'u_0'], funs=['N@k']),
    Target('IVP_prime_unit', F, ivp(True, 'enforce', unit=True), leaves=['t'], pars=['t_0', 'u_0', 'u_0_prime'], funs=['N@k']),
    Target('DBVP', F, dbvp('enforce'), leaves=['t'], pars=['t_0', 'u_0', 't_1', 'u_1'], funs=['N']),
    Target('DBVP_param', F, dbvp('parameterize'), leaves=['t', 'o'], pars=['t_0', 'u_0', 't_1', 'u_1']),
    Target('DBVP_unit', F, dbvp('enforce', unit=True), leaves=['t'], pars=['t_0', 'u_0', 't_1', 'u_1'], funs=['N@k']),
] + [
    Target(f'DEBVP_{m}', F, debvp(m), leaves=['x'], pars=['x_min', 'x_max', 'a', 'b'], funs=['N'])
    for m in ('dd', 'dn', 'nd', 'nn')
] + [
    Target(f'DEBVP_{m}_unit', F, debvp(m, unit=True), leaves=['x'], pars=['x_min', 'x_max', 'a', 'b'], funs=['N@k'])
    for m in ('dd', 'dn', 'nd', 'nn')
] + [
    Target(f'DEBVP_{m}_param', F, debvp_param(m), leaves=['x', 'o'], pars=['x_min', 'x_max', 'a', 'b'], funs=['M'])
    for m in ('dd', 'dn', 'nd', 'nn')
] + [
    # the constructor's validity test: these configurations must be rejected
    Target('DEBVP_reject_three', F, debvp_invalid(['x_min_val', 'x_min_prime', 'x_max_val'])),
    Target('DEBVP_reject_one', F, debvp_invalid(['x_min_val'])),
    Target('DEBVP_reject_both_min', F, debvp_invalid(['x_min_val', 'x_min_prime'])),
]
