"""C17 orthogonality: regenerates coq/gen/Gen_C17o.v from the current function_basis.py.

Each real spherical harmonic Y_k is split syntactically into  constant x Theta_k(theta) x Phi_k(phi)
(fail-closed: a factor mentioning both angles is refused).  For every unordered pair one of the two
1-D integrals vanishes; sympy (untrusted) proposes an antiderivative certificate G, and the emitted
Coq lemma re-checks inside the kernel that D G = integrand (field with sin^2 + cos^2 = 1) and that
G(b) - G(a) = 0, concluding with Coquelicot's fundamental theorem (lib/Sphere.v cert_RInt).  The
emitted proofs use only fixed tactics; nothing about the certificates is trusted.
"""
import hashlib
import json
import os
import sys

from pyfront import ir
from pyfront.gen import run_target
from pyfront.interp import TranslationError
from props.t_C17 import TARGETS, YNAMES

X = None


def flatten(e):
    return flatten(e[1]) + flatten(e[2]) if e[0] == 'mul' else [e]


def prod(fs):
    if not fs:
        return ('cst', 1)
    acc = fs[0]
    for f in fs[1:]:
        acc = ('mul', acc, f)
    return acc


def to_sp(sp, x, e):
    k = e[0]
    if k == 'var':
        return x
    if k == 'cst':
        return sp.Integer(e[1])
    if k == 'cstq':
        return sp.Rational(e[1], e[2])
    if k in ('add', 'sub', 'mul'):
        a, b = to_sp(sp, x, e[1]), to_sp(sp, x, e[2])
        return a + b if k == 'add' else a - b if k == 'sub' else a * b
    if k == 'neg':
        return -to_sp(sp, x, e[1])
    if k == 'pow':
        return to_sp(sp, x, e[1]) ** e[2]
    if k == 'sin':
        return sp.sin(to_sp(sp, x, e[1]))
    if k == 'cos':
        return sp.cos(to_sp(sp, x, e[1]))
    raise TranslationError('neurodiffeq/function_basis.py', 0, f'harmonic factor not polynomial in sin/cos: {k}')


def from_sp(sp, x, leaf, g):
    """sympy expression in sin(x), cos(x) -> IR over the given leaf (no divisions: rationals are cstq)."""
    if g.is_Integer:
        return ('cst', int(g))
    if g.is_Rational:
        return ('cstq', int(g.p), int(g.q))
    if g == x:
        return ('var', leaf)
    if g.is_Add:
        args = [from_sp(sp, x, leaf, a) for a in g.args]
        acc = args[0]
        for a in args[1:]:
            acc = ('add', acc, a)
        return acc
    if g.is_Mul:
        args = [from_sp(sp, x, leaf, a) for a in g.args]
        acc = args[0]
        for a in args[1:]:
            acc = ('mul', acc, a)
        return acc
    if g.is_Pow and g.exp.is_Integer and int(g.exp) >= 0:
        return ('pow', from_sp(sp, x, leaf, g.base), int(g.exp))
    if g.func == sp.sin and g.args[0] == x:
        return ('sin', ('var', leaf))
    if g.func == sp.cos and g.args[0] == x:
        return ('cos', ('var', leaf))
    raise ValueError(f'certificate not in the accepted form: {g}')


def certificates(repo, cache_path):
    import sympy as sp
    x = sp.Symbol('x')
    T = [t for t in TARGETS if t.name in YNAMES]
    terms = {}
    for t in T:
        r, _ = run_target(repo, t)
        terms[t.name] = r['terms'][0]
    facs = {}
    for n in YNAMES:
        th, ph, c = [], [], []
        for f in flatten(terms[n]):
            L = ir.leaves(f)
            if L == {'theta'}:
                th.append(f)
            elif L == {'phi'}:
                ph.append(f)
            elif not L:
                c.append(f)
            else:
                raise TranslationError('neurodiffeq/function_basis.py', 0, f'{n}: a factor mentions both angles; cannot split')
        facs[n] = (prod(c), prod(th), prod(ph))
    thetas, phis = [], []
    for n in YNAMES:
        if facs[n][1] not in thetas:
            thetas.append(facs[n][1])
        if facs[n][2] not in phis:
            phis.append(facs[n][2])
    cache = {}
    if os.path.exists(cache_path):
        try:
            cache = json.load(open(cache_path))
        except ValueError:
            cache = {}

    def cert(kind, a, b):
        """antiderivative of a*b (phi) or a*b*sin (theta) and whether the definite integral vanishes"""
        key = hashlib.sha256(json.dumps([kind, a, b]).encode()).hexdigest()
        if key in cache:
            return cache[key]['zero'], ir_untuple(cache[key]['G'])
        f = to_sp(sp, x, a) * to_sp(sp, x, b) * (sp.sin(x) if kind == 'theta' else 1)
        G = sp.expand_trig(sp.integrate(sp.expand_trig(f), x))
        hi = sp.pi if kind == 'theta' else 2 * sp.pi
        zero = sp.simplify(G.subs(x, hi) - G.subs(x, 0)) == 0
        Gir = from_sp(sp, x, 'theta' if kind == 'theta' else 'phi', sp.expand(G))
        cache[key] = {'zero': bool(zero), 'G': Gir}
        return bool(zero), Gir
    pairs = {}
    need_phi, need_theta = {}, {}
    for ia, na in enumerate(YNAMES):
        for ib in range(ia + 1, len(YNAMES)):
            nb = YNAMES[ib]
            p, q = sorted((phis.index(facs[na][2]), phis.index(facs[nb][2])))
            zp, Gp = cert('phi', phis[p], phis[q])
            if zp:
                need_phi[(p, q)] = Gp
                pairs[(ia, ib)] = ('phi', p, q)
                continue
            i, j = sorted((thetas.index(facs[na][1]), thetas.index(facs[nb][1])))
            zt, Gt = cert('theta', thetas[i], thetas[j])
            if not zt:
                # neither factor integral vanishes: the harmonics are NOT orthogonal (or the split failed)
                pairs[(ia, ib)] = ('none', None, None)
                continue
            need_theta[(i, j)] = Gt
            pairs[(ia, ib)] = ('theta', i, j)
    diag_phi = {j: cert('phi', phis[j], phis[j])[1] for j in sorted({phis.index(facs[n][2]) for n in YNAMES})}
    diag_theta = {i: cert('theta', thetas[i], thetas[i])[1] for i in sorted({thetas.index(facs[n][1]) for n in YNAMES})}
    os.makedirs(os.path.dirname(cache_path), exist_ok=True)
    json.dump(cache, open(cache_path, 'w'))
    return facs, thetas, phis, pairs, need_phi, need_theta, diag_phi, diag_theta


def ir_untuple(x):
    if isinstance(x, list):
        return tuple(ir_untuple(y) for y in x)
    return x


class N2(ir.Names):
    pass


def cq(e):
    nm = ir.Names()
    nm.v('theta'); nm.v('phi')
    s = ir.coq(e, nm)
    return s.replace('v_theta', '0%nat').replace('v_phi', '1%nat')


HEADER = '''(* GENERATED by tools/props/t_C17o.py from neurodiffeq/function_basis.py on every run -- do not edit.
   Orthogonality of the 25 real spherical harmonics on the sphere.  Certificates (antiderivatives) come
   from sympy and are re-checked here inside the kernel. *)
From Coq Require Import Reals List Lra Lia ZArith Field.
From Coquelicot Require Import Coquelicot.
From Interval Require Import Tactic.
From ND.lib Require Import Expr ExprSound Tac Sphere.
From ND.gen Require Import Gen_C17.
Import ListNotations.
Open Scope R_scope.

Definition zp : nat -> R := fun _ => 0.
Definition env2 (th ph : R) : nat -> R := fun k => match k with 0%nat => th | _ => ph end.
Definition Yprod (a b : Expr.expr) : R -> R -> R :=
  fun th ph => eval (env2 th ph) zp nofenv a * eval (env2 th ph) zp nofenv b.

Ltac smooth_tac := cbn [smooth0]; repeat split; try exact I; try discriminate.

Ltac trig_field x :=
  rewrite ?cos_2a_sin, ?sin_2a;
  generalize (sc2 x); set (s := sin x); set (c := cos x);
  let H := fresh "H" in intros H; field [H].

(* is_RInt of e over [a, b] with value 0 from the antiderivative certificate G *)
Ltac cert_solve v G hi :=
  evar_last;
  [ apply (cert_RInt zp (env2 0 0) v _ G 0 hi);
    [ smooth_tac | smooth_tac
    | let x := fresh "x" in intros x; reduce_eval; cbv [upd Nat.eqb env2 zp]; trig_field x ]
  | reduce_eval; cbv [upd Nat.eqb env2 zp];
    rewrite ?sin_2PI, ?cos_2PI, ?sin_PI, ?cos_PI, ?sin_0, ?cos_0; field ].

'''


def generate(repo, outdir, build_dir=None):
    import common
    build_dir = build_dir or common.BUILD
    try:
        facs, thetas, phis, pairs, need_phi, need_theta, diag_phi, diag_theta = certificates(repo, os.path.join(build_dir, 'c17_cert_cache.json'))
    except TranslationError as e:
        return False, {'error': str(e)}
    except Exception as e:      # sympy failure: fail closed
        return False, {'error': f'certificate generation failed: {type(e).__name__}: {e}'}
    out = [HEADER]
    out.append('Definition Ylist : list Expr.expr := [' + '; '.join(f'{n}.term' for n in YNAMES) + '].\n')
    for i, t in enumerate(thetas):
        out.append(f'Definition TH_{i} : Expr.expr := {cq(t)}.')
    for j, p in enumerate(phis):
        out.append(f'Definition PH_{j} : Expr.expr := {cq(p)}.')
    out.append('')
    for k, n in enumerate(YNAMES):
        c, th, ph = facs[n]
        i, j = thetas.index(th), phis.index(ph)
        out.append(f'Definition CF_{k} : Expr.expr := {cq(c)}.')
        out.append(f'Lemma factor_{k} : forall th ph, eval (env2 th ph) zp nofenv {n}.term = '
                   f'eval (env2 0 0) zp nofenv CF_{k} * eval (upd (env2 0 0) 0%nat th) zp nofenv TH_{i} * eval (upd (env2 0 0) 1%nat ph) zp nofenv PH_{j}.')
        out.append('Proof. intros th ph. reduce_eval. cbv [upd Nat.eqb env2 zp]. field. Qed.\n')
    for (p, q), G in sorted(need_phi.items()):
        out.append(f'Definition GP_{p}_{q} : Expr.expr := {cq(G)}.')
        out.append(f'Lemma cert_phi_{p}_{q} : is_RInt (fun x => eval (upd (env2 0 0) 1%nat x) zp nofenv (PH_{p} *\' PH_{q})) 0 (2 * PI) 0.')
        out.append(f'Proof. cert_solve 1%nat GP_{p}_{q} (2 * PI). Qed.\n')
    for (i, j), G in sorted(need_theta.items()):
        out.append(f'Definition GT_{i}_{j} : Expr.expr := {cq(G)}.')
        out.append(f'Lemma cert_theta_{i}_{j} : is_RInt (fun x => eval (upd (env2 0 0) 0%nat x) zp nofenv (TH_{i} *\' TH_{j}) * sin x) 0 PI 0.')
        out.append('Proof.')
        out.append(f'  apply (is_RInt_ext (fun x => eval (upd (env2 0 0) 0%nat x) zp nofenv (TH_{i} *\' TH_{j} *\' ESin (EVar 0%nat)))).')
        out.append('  { intros x _. cbn [eval]. now rewrite upd_eq. }')
        out.append(f'  cert_solve 0%nat GT_{i}_{j} PI.')
        out.append('Qed.\n')
    bad = []
    for (a, b), (kind, u, v) in sorted(pairs.items()):
        na, nb = YNAMES[a], YNAMES[b]
        ia, ib = thetas.index(facs[na][1]), thetas.index(facs[nb][1])
        ja, jb = phis.index(facs[na][2]), phis.index(facs[nb][2])
        if kind == 'none':
            bad.append((na, nb))
            continue
        out.append(f'Lemma ortho_{a}_{b} : sphere_inner (Yprod {na}.term {nb}.term) = 0.')
        out.append('Proof.')
        T = f'(fun th => eval (upd (env2 0 0) 0%nat th) zp nofenv (TH_{min(ia, ib)} *\' TH_{max(ia, ib)}))'
        Pf = f'(fun ph => eval (upd (env2 0 0) 1%nat ph) zp nofenv (PH_{min(ja, jb)} *\' PH_{max(ja, jb)}))'
        C = f'(eval (env2 0 0) zp nofenv (CF_{a} *\' CF_{b}))'
        if kind == 'phi':
            out.append(f'  apply (inner_zero_phi _ {C} {T} {Pf}).')
            out.append(f'  - intros th ph. unfold Yprod. rewrite factor_{a}, factor_{b}. cbn [eval]. ring.')
            out.append('  - intros th. apply eval_continuous. smooth_tac.')
            out.append(f'  - exact cert_phi_{u}_{v}.')
        else:
            out.append(f'  apply (inner_zero_theta _ {C} {T} {Pf}).')
            out.append(f'  - intros th ph. unfold Yprod. rewrite factor_{a}, factor_{b}. cbn [eval]. ring.')
            out.append(f'  - exact cert_theta_{u}_{v}.')
        out.append('Qed.\n')
    # ---- normalisation: <Y_k, Y_k> = pi up to the 9-digit constants of the library
    for j, G in sorted(diag_phi.items()):
        out.append(f'Definition GPd_{j} : Expr.expr := {cq(G)}.')
        out.append(f'Lemma certv_phi_{j} : is_RInt (fun x => eval (upd (env2 0 0) 1%nat x) zp nofenv (PH_{j} *\' PH_{j})) 0 (2 * PI)')
        out.append(f'  (eval (upd (env2 0 0) 1%nat (2 * PI)) zp nofenv GPd_{j} - eval (upd (env2 0 0) 1%nat 0) zp nofenv GPd_{j}).')
        out.append(f'Proof. apply (cert_RInt zp (env2 0 0) 1%nat _ GPd_{j} 0 (2 * PI)); [smooth_tac | smooth_tac |')
        out.append('  let x := fresh "x" in intros x; reduce_eval; cbv [upd Nat.eqb env2 zp]; trig_field x]. Qed.\n')
    for i, G in sorted(diag_theta.items()):
        out.append(f'Definition GTd_{i} : Expr.expr := {cq(G)}.')
        out.append(f'Lemma certv_theta_{i} : is_RInt (fun x => eval (upd (env2 0 0) 0%nat x) zp nofenv (TH_{i} *\' TH_{i}) * sin x) 0 PI')
        out.append(f'  (eval (upd (env2 0 0) 0%nat PI) zp nofenv GTd_{i} - eval (upd (env2 0 0) 0%nat 0) zp nofenv GTd_{i}).')
        out.append('Proof.')
        out.append(f'  apply (is_RInt_ext (fun x => eval (upd (env2 0 0) 0%nat x) zp nofenv (TH_{i} *\' TH_{i} *\' ESin (EVar 0%nat)))).')
        out.append('  { intros x _. cbn [eval]. now rewrite upd_eq. }')
        out.append(f'  apply (cert_RInt zp (env2 0 0) 0%nat _ GTd_{i} 0 PI); [smooth_tac | smooth_tac |')
        out.append('  let x := fresh "x" in intros x; reduce_eval; cbv [upd Nat.eqb env2 zp]; trig_field x].')
        out.append('Qed.\n')
    for k, nme in enumerate(YNAMES):
        i, j = thetas.index(facs[nme][1]), phis.index(facs[nme][2])
        out.append(f'Lemma norm_{k} : Rabs (sphere_inner (Yprod {nme}.term {nme}.term) - PI) <= 1 / 100000000.')
        out.append('Proof.')
        out.append(f'  assert (Hf : forall th ph, Yprod {nme}.term {nme}.term th ph = eval (env2 0 0) zp nofenv (CF_{k} *\' CF_{k}) * '
                   f'(fun th => eval (upd (env2 0 0) 0%nat th) zp nofenv (TH_{i} *\' TH_{i})) th * '
                   f'(fun ph => eval (upd (env2 0 0) 1%nat ph) zp nofenv (PH_{j} *\' PH_{j})) ph)')
        out.append(f'    by (intros th ph; unfold Yprod; rewrite factor_{k}; cbn [eval]; ring).')
        out.append(f'  rewrite (inner_value _ _ _ _ _ _ Hf certv_theta_{i} certv_phi_{j}). clear Hf.')
        out.append('  reduce_eval. cbv [upd Nat.eqb env2 zp]. rewrite ?sin_2PI, ?cos_2PI, ?sin_PI, ?cos_PI, ?sin_0, ?cos_0.')
        out.append('  interval with (i_prec 60).')
        out.append('Qed.\n')
    out.append(f'Theorem norm_all : forall k, (k < {len(YNAMES)})%nat ->')
    out.append('  Rabs (sphere_inner (Yprod (nth k Ylist (ECst 0)) (nth k Ylist (ECst 0))) - PI) <= 1 / 100000000.')
    out.append('Proof.')
    out.append('  intros k Hk.')
    out.append('  ' + ' '.join(f'destruct k as [|k]; [exact norm_{k}|].' for k in range(len(YNAMES))) + ' lia.')
    out.append('Qed.\n')
    n = len(YNAMES)
    out.append(f'(* pairs whose split integrals do not vanish (must be empty): {bad} *)')
    out.append(f'Definition non_orthogonal_pairs : nat := {len(bad)}%nat.\n')
    out.append('Lemma Yprod_sym a b : sphere_inner (Yprod a b) = sphere_inner (Yprod b a).')
    out.append('Proof. apply sphere_inner_ext. intros th ph. unfold Yprod. ring. Qed.\n')
    out.append(f'Theorem ortho_all : forall a b, (a < {n})%nat -> (b < {n})%nat -> a <> b ->')
    out.append('  sphere_inner (Yprod (nth a Ylist (ECst 0)) (nth b Ylist (ECst 0))) = 0.')
    out.append('Proof.')
    out.append('  intros a b Ha Hb Hab.')
    badset = {tuple(sorted((YNAMES.index(x), YNAMES.index(y)))) for x, y in bad}
    for a in range(n):
        out.append(f'  destruct a as [|a]; [')
        steps = []
        for b in range(n):
            if a == b:
                tac = 'congruence'
            elif tuple(sorted((a, b))) in badset:
                tac = 'fail'
            elif a < b:
                tac = f'exact ortho_{a}_{b}'
            else:
                tac = f'rewrite Yprod_sym; exact ortho_{b}_{a}'
            steps.append(f'destruct b as [|b]; [{tac}|]')
        out.append('    ' + '; '.join(steps) + '; lia |].')
    out.append('  lia.')
    out.append('Qed.')
    text = '\n'.join(out) + '\n'
    os.makedirs(outdir, exist_ok=True)
    vpath = os.path.join(outdir, 'Gen_C17o.v')
    old = open(vpath).read() if os.path.exists(vpath) else None
    if old != text:
        with open(vpath, 'w') as f:
            f.write(text)
    return True, {'pairs': len(pairs), 'phi_certs': len(need_phi), 'theta_certs': len(need_theta), 'non_orthogonal': bad, 'changed': old != text}


def setup_generate():
    import common
    with common.Lock():
        return generate(common.REPO, common.GEN)


if __name__ == '__main__':
    sys.path.insert(0, os.path.join(os.path.dirname(os.path.abspath(__file__)), '..'))
    import common
    print(generate(common.REPO, common.GEN)[1])
