#!/venv/bin/python
"""C02 — PDE box, space-time and irregular conditions hold on the whole boundary.  Engine A plus
the small R-level thin-plate-spline model.  DESIGN.md section 7, C02."""
import math
import os
import sys

sys.path.insert(0, os.path.join(os.path.dirname(os.path.abspath(__file__)), '..'))
from common import Check
from pyfront import ir
from props.t_C02 import TARGETS
from harness import enga
from harness.probes import Probe, make_net, dy, lit


def run_box(ck, res, n_cases, goals, n_interval, torch, C, diff, r, dist):
    for ci in range(n_cases):
        unit = ci % 4 == 3
        x0, y0 = dy(r, -2, 2), dy(r, -2, 2)
        x1 = x0 + r.choice([-1, 1]) * (dy(r, 0, 2) + 0.25)
        y1 = y0 + r.choice([-1, 1]) * (dy(r, 0, 2) + 0.25)
        Gp = Probe(2, r, nterms=3)
        nets = [Probe(2, r, nterms=2) for _ in range(2 if unit else 1)]
        k = r.randrange(2) if unit else None
        net = make_net(nets)
        if ci % 3 == 1:     # documented positional order (x_min, x_min_val, x_max, x_max_val, y_min, y_min_val, y_max, y_max_val)
            cond = C.DirichletBVP2D(x0, (lambda y: Gp.torch(x0 + 0 * y, y)), x1, (lambda y: Gp.torch(x1 + 0 * y, y)),
                                    y0, (lambda x: Gp.torch(x, y0 + 0 * x)), y1, (lambda x: Gp.torch(x, y1 + 0 * x)))
        else:
            cond = C.DirichletBVP2D(x_min=x0, x_min_val=lambda y: Gp.torch(x0 + 0 * y, y), x_max=x1, x_max_val=lambda y: Gp.torch(x1 + 0 * y, y),
                                    y_min=y0, y_min_val=lambda x: Gp.torch(x, y0 + 0 * x), y_max=y1, y_max_val=lambda x: Gp.torch(x, y1 + 0 * x))
        if unit:
            cond.ith_unit = k
        ne = 6
        ex = [x0 + (x1 - x0) * j / 8 for j in range(1, ne)]        # interior points along the edges
        ey = [y0 + (y1 - y0) * j / 8 for j in range(1, ne)]
        rows = [(x0, y) for y in ey] + [(x1, y) for y in ey] + [(x, y0) for x in ex] + [(x, y1) for x in ex] + \
               [(x0, y0), (x1, y1)] + [(dy(r, -3, 3, 4), dy(r, -3, 3, 4)) for _ in range(3)]
        X, Y = enga.col(torch, [p[0] for p in rows]), enga.col(torch, [p[1] for p in rows])
        u = [float(v) for v in cond.enforce(net, X, Y).detach().reshape(-1)]
        pv = {'x0': x0, 'x1': x1, 'y0': y0, 'y1': y1}
        inp = {'kind': 'DirichletBVP2D', 'params': pv, 'G': Gp.describe(), 'net': [n_.describe() for n_ in nets], 'unit': k}
        scale = 1 + max(abs(v) for v in u)
        for i, (x, y) in enumerate(rows[:-3]):
            g = Gp.jet((0, 0), [x, y])
            if not enga.close(u[i], g, scale, rel=enga.EXACT):
                edge = 'x0' if x == x0 else 'x1' if x == x1 else 'y0' if y == y0 else 'y1'
                ck.fail(f'bvp2d/edge-{edge}', f'DirichletBVP2D: value {u[i]!r} at edge point ({x},{y}) differs from the prescribed {g!r}', dict(inp, point=[x, y]), expected=g, actual=u[i])
        dist['bvp2d'] = dist.get('bvp2d', 0) + 1
        ck.add_case(('bvp2d', str(pv), str(inp['G']), unit))
        if ci < 3:
            ck.sample({'kind': 'DirichletBVP2D', 'params': pv, 'G': inp['G'], 'rows': rows[:4], 'impl': u[:4]})
        tname = 'BVP2D_unit' if unit else 'BVP2D'
        if res is None or 'terms' not in res.get(tname, {}):
            continue
        term = res[tname]['terms'][0]
        fenv = {'G': Gp.jet, ('N@k' if unit else 'N'): (nets[k] if unit else nets[0]).jet}
        for i, (x, y) in enumerate(rows):
            mv = ir.feval(term, {'x': x, 'y': y}, pv, fenv)
            ck.traces += 1
            if not enga.close(mv, u[i], scale):
                ck.broke('correspondence-broken', f'pyfront:{tname}', f'row {i}: model {mv!r} impl {u[i]!r} input {inp}')
                break
        if len(goals) < n_interval and not unit:
            x, y = rows[-1]
            goals.append(enga.interval_goal(f'BVP2D#{ci}', term, {'x': x, 'y': y}, pv, {'G': Gp, 'N': nets[0]}, u[-1], scale,
                                            gen=('Gen_C02', tname, 'term'), names=res[tname]['names']))


def run_ibvp(ck, res, n_cases, goals, n_interval, torch, C, diff, r, dist):
    for ci in range(n_cases):
        mode = ['dd', 'dn', 'nd', 'nn'][ci % 4]
        unit = (ci // 4) % 3 == 2
        xmin = dy(r, -2, 2)
        xmax = xmin + r.choice([-1, 1]) * (dy(r, 0, 2) + 0.25)
        tmin = dy(r, -1, 1)
        Gp = Probe(2, r, nterms=3)
        nets = [Probe(2, r, nterms=2) for _ in range(2 if unit else 1)]
        k = r.randrange(2) if unit else None
        net = make_net(nets)
        jt = lambda alpha, xfix: (lambda t: sum(c * Probe._fac(fs[0], alpha, xfix) * _tfac(torch, fs[1], t) for c, fs in Gp.terms))
        val = lambda xe: (lambda t: Gp.torch(xe + 0 * t, t))
        der = lambda xe: jt(1, xe)
        kw = {'dd': dict(x_min_val=val(xmin), x_max_val=val(xmax)), 'dn': dict(x_min_val=val(xmin), x_max_prime=der(xmax)),
              'nd': dict(x_min_prime=der(xmin), x_max_val=val(xmax)), 'nn': dict(x_min_prime=der(xmin), x_max_prime=der(xmax))}[mode]
        if ci % 3 == 1:
            # the documented positional order (x_min, x_max, t_min, t_min_val, x_min_val, x_min_prime, x_max_val, x_max_prime)
            order = ['x_min_val', 'x_min_prime', 'x_max_val', 'x_max_prime']
            tail = [kw.get(nm) for nm in order]
            while tail and tail[-1] is None:
                tail.pop()
            cond = C.IBVP1D(xmin, xmax, tmin, (lambda x: Gp.torch(x, tmin + 0 * x)), *tail)
        else:
            cond = C.IBVP1D(x_min=xmin, x_max=xmax, t_min=tmin, t_min_val=lambda x: Gp.torch(x, tmin + 0 * x), **kw)
        if unit:
            cond.ith_unit = k
        xs_in = [xmin + (xmax - xmin) * j / 6 for j in range(1, 6)]
        ts_in = [tmin + dy(r, 0, 2, 4) for _ in range(4)]
        rows = [(x, tmin) for x in xs_in] + [(xmin, t) for t in ts_in] + [(xmax, t) for t in ts_in] + \
               [(xmin, tmin), (xmax, tmin)] + [(dy(r, -3, 3, 4), tmin + dy(r, 0, 2, 4)) for _ in range(3)]
        X, T = enga.col(torch, [p[0] for p in rows]), enga.col(torch, [p[1] for p in rows])
        uu = cond.enforce(net, X, T)
        du = diff(uu, X)
        u = [float(v) for v in uu.detach().reshape(-1)]
        d = [float(v) for v in du.detach().reshape(-1)]
        pv = {'x_min': xmin, 'x_max': xmax, 't_min': tmin}
        inp = {'kind': f'IBVP1D-{mode}', 'params': pv, 'G': Gp.describe(), 'net': [n_.describe() for n_ in nets], 'unit': k}
        scale = 1 + max(abs(v) for v in u + d)
        for i, (x, t) in enumerate(rows[:-3]):
            if t == tmin:
                g = Gp.jet((0, 0), [x, t])
                if not enga.close(u[i], g, scale, rel=enga.EXACT):
                    ck.fail(f'ibvp-{mode}/initial', f'IBVP1D {mode}: u(x,t_min) = {u[i]!r} differs from the initial profile {g!r} at x = {x}', dict(inp, point=[x, t]), expected=g, actual=u[i])
            for end, xe, kind in (('left', xmin, mode[0]), ('right', xmax, mode[1])):
                if x == xe:
                    if kind == 'd':
                        g, got = Gp.jet((0, 0), [x, t]), u[i]
                    else:
                        g, got = Gp.jet((1, 0), [x, t]), d[i]
                    if not enga.close(got, g, scale * 4, rel=enga.EXACT):
                        ck.fail(f'ibvp-{mode}/{end}', f'IBVP1D {mode}: {"value" if kind == "d" else "x-derivative"} at the {end} end is {got!r}, prescribed {g!r} (t = {t})',
                                dict(inp, point=[x, t]), expected=g, actual=got)
        dist[f'ibvp_{mode}'] = dist.get(f'ibvp_{mode}', 0) + 1
        ck.add_case((f'ibvp_{mode}', str(pv), str(inp['G']), unit))
        if ci < 4:
            ck.sample({'kind': inp['kind'], 'params': pv, 'G': inp['G'], 'rows': rows[:3], 'impl': u[:3]})
        tname = f'IBVP_{mode}' + ('_unit' if unit else '')
        if res is None or 'terms' not in res.get(tname, {}):
            continue
        term = res[tname]['terms'][0]
        dterm = ('D', 'x', term)
        pr = nets[k] if unit else nets[0]
        fenv = {'G': Gp.jet, ('N@k' if unit else 'N'): pr.jet}
        envs = enga.row_envs({'x': [p[0] for p in rows], 't': [p[1] for p in rows]}, len(rows), res[tname]['fresh'], pv)
        for i, venv in enumerate(envs):
            mv, md = ir.feval(term, venv, pv, fenv), ir.feval(dterm, venv, pv, fenv)
            ck.traces += 1
            if not enga.close(mv, u[i], scale) or not enga.close(md, d[i], scale * 4):
                ck.broke('correspondence-broken', f'pyfront:{tname}', f'row {i}: model ({mv!r},{md!r}) impl ({u[i]!r},{d[i]!r}) input {inp}')
                break
        if len(goals) < n_interval and not unit:
            goals.append(enga.interval_goal(f'{tname}#{ci}', term, envs[-1], pv, {'G': Gp, 'N': pr}, u[-1], scale,
                                            gen=('Gen_C02', tname, 'term'), names=res[tname]['names']))


def _tfac(torch, f, t):
    k = f[0]
    if k == 'one':
        return 1 + 0 * t
    if k == 'pow':
        return t ** f[1]
    if k == 'sin':
        return torch.sin(f[1] * t + f[2])
    return torch.exp(f[1] * t)


def run_irregular(ck, res, n_cases, goals, n_interval, torch, r, dist):
    import numpy as np
    from neurodiffeq import pde
    captured = []
    real_solve = np.linalg.solve

    def spy(W, b):
        c = real_solve(W, b)
        captured.append((np.array(W), np.array(b), np.array(c)))
        return c
    for ci in range(n_cases):
        M = 4 + ci % 13 if ci >= 4 else 4 + ci % 2          # 4..16 control points; first cases 4 and 5 (generated terms)
        cx, cy = dy(r, -1, 1), dy(r, -1, 1)
        a, b = dy(r, 0.5, 2), dy(r, 0.5, 2)
        far = ci % 6 == 4 and ci % 5 != 3 and ci % 4 != 1
        if far:
            # a domain far from the origin (UTM-like coordinates) evaluated on a batch of more than 25 rows: squared distances
            # must be computed from coordinate differences, not from |a|^2 + |b|^2 - 2 a.b
            cx, cy = cx + r.choice([1.0e4, 2.5e4]), cy + r.choice([-2.0e4, 1.5e4])
        if ci % 4 == 1 and ci % 5 != 3:      # (not combined with the close-neighbour cases: 1e-6 apart on a domain of
            # size 100 is a relative separation of 1e-8, below what the float64 kernel differences can resolve)
            # domains of very different absolute size (the spline kernel has an absolute offset: fit and evaluation must
            # agree on it whatever the extent of the control points)
            S = r.choice([16.0, 64.0, 1.0 / 16])
            cx, cy, a, b = cx * S, cy * S, a * S, b * S
        ph0 = dy(r, 0, 1, 4)
        # distinct points around the centre: a perturbed ellipse, angles strictly increasing ...
        angs = [ph0 + 2 * math.pi * (j + 0.25 * r.random()) / M for j in range(M)]
        locs = [(cx + a * math.cos(t) * (1 + 0.2 * r.random()), cy + b * math.sin(t) * (1 + 0.2 * r.random())) for t in angs]
        if ci % 3 == 2:
            # ... or points on the boundary of an axis-aligned rectangle (shared x / shared y coordinates between
            # neighbours: corners and points along the vertical and horizontal edges)
            per = []
            k = max(1, M // 4)
            for j in range(k): per.append((cx - a + 2 * a * j / k, cy - b))
            for j in range(k): per.append((cx + a, cy - b + 2 * b * j / k))
            for j in range(k): per.append((cx + a - 2 * a * j / k, cy + b))
            for j in range(k): per.append((cx - a, cy + b - 2 * b * j / k))
            locs = per
            M = len(locs)
        if ci % 5 == 3:
            # ... plus a close neighbour of one of them (distinct points 1e-6 .. 1e-3 apart are distinct control points:
            # both must be kept and reproduced; only true duplicates may be merged)
            j = r.randrange(len(locs))
            dlt = r.choice([1e-6, 1e-5, 1e-4, 1e-3])
            dx, dy_ = locs[j][0] - cx, locs[j][1] - cy
            nrm = math.hypot(dx, dy_)
            # displaced along the tangent (counter-clockwise), so it is angularly adjacent to its neighbour
            locs = locs[:j + 1] + [(locs[j][0] - dlt * dy_ / nrm, locs[j][1] + dlt * dx / nrm)] + locs[j + 1:]
            M = len(locs)
        vals = [dy(r, -3, 3) for _ in range(M)]
        cps = [pde.DirichletControlPoint(loc=l, val=v) for l, v in zip(locs, vals)]
        captured.clear()
        np.linalg.solve = spy
        try:
            cond = pde.CustomBoundaryCondition(center_point=pde.Point((cx, cy)), dirichlet_control_points=list(cps))
        except Exception as e:
            ck.fail('custom/constructor', f'CustomBoundaryCondition raised {type(e).__name__}: {e}', {'M': M, 'points': locs})
            continue
        finally:
            np.linalg.solve = real_solve
        inp = {'kind': 'CustomBoundaryCondition', 'M': M, 'center': [cx, cy], 'points': locs, 'values': vals}
        kept = cond.dirichlet_control_points
        dist[f'custom_M{M}'] = dist.get(f'custom_M{M}', 0) + 1
        ck.add_case(('custom', M, str(locs)))
        if ci < 2:
            ck.sample(inp)
        if len(kept) != M:
            ck.fail('custom/control-point-dropped', f'_clean_control_points kept {len(kept)} of {M} distinct control points', inp)
            continue
        # (far from the origin a polynomial probe network is of size 1e13 and rounding of N itself dominates: bounded there)
        netp = Probe(2, r, nterms=2, kinds=('one', 'sin') if far else ('one', 'pow', 'sin'))
        net = make_net([netp])
        extra = [(cx + 0.3 * a * (2 * r.random() - 1), cy + 0.3 * b * (2 * r.random() - 1)) for _ in range(30)] if far else []
        X = enga.col(torch, [p.loc[0] for p in kept] + [e[0] for e in extra]); Y = enga.col(torch, [p.loc[1] for p in kept] + [e[1] for e in extra])
        u = [float(v) for v in cond.enforce(net, X, Y).detach().reshape(-1)]
        conds = [np.linalg.cond(W) for W, _, _ in captured]
        tol = 1e-9 * (1 + max(abs(v) for v in vals)) * max(1.0, max(conds) * 1e-6) * 100
        if far:     # calibrated on the implementation: 2e-11 at |centre| = 1e4 whatever the condition number of the fit
            tol = 1e-8 * (1 + max(abs(v) for v in vals))
        for i, p in enumerate(kept):
            if abs(u[i] - p.val) > tol:
                ck.fail('custom/value-at-control-point', f'enforced value {u[i]!r} at control point {p.loc} differs from the prescribed {p.val!r} (tol {tol:.2e})',
                        dict(inp, index=i), expected=p.val, actual=u[i])
        # ---- correspondence with the model: captured systems (A_D, L_D x, L_D y)
        if len(captured) != 3:
            ck.broke('correspondence-broken', 'tps:solve-count', f'expected 3 linear solves, saw {len(captured)}')
            continue
        (W, bA, cA), (_, bX, cX), (_, bY, cY) = captured
        # rows of W against the kernel model, right-hand sides against values / circular targets
        def kern(x, cp):
            r2 = sum((xa - ca) ** 2 for xa, ca in zip(x, cp)) + 1e-4
            return r2 * math.log(r2)
        for i, p in enumerate(kept):
            row = [kern(p.loc, q.loc) for q in kept] + [1.0] + list(p.loc)
            ck.traces += 1
            if not all(enga.close(row[j], float(W[i][j]), 10.0) for j in range(M + 3)):
                ck.broke('correspondence-broken', 'tps:system_row', f'row {i} of the fitted system differs from model/TPS.v system_row; input {inp}')
                break
            th = -2 * math.pi * i / M
            if not (enga.close(float(bA[i]), p.val) and enga.close(float(bX[i]), 0.5 * math.cos(th)) and enga.close(float(bY[i]), 0.5 * math.sin(th))):
                ck.broke('correspondence-broken', 'tps:rhs', f'right-hand side {i}: ({bA[i]},{bX[i]},{bY[i]}) vs values / circular targets; input {inp}')
                break
        for (Wm, bb, cc) in captured:
            if np.max(np.abs(Wm @ cc - bb)) > 1e-6 * (1 + np.max(np.abs(bb))) * max(1.0, max(conds) * 1e-8):
                ck.broke('correspondence-broken', 'tps:solve', f'np.linalg.solve residual too large; input {inp}')
        if len(goals) < n_interval + 4:
            i, j = r.randrange(M), r.randrange(M)
            p, q = kept[i].loc, kept[j].loc
            r2 = f'(({lit(p[0])} - {lit(q[0])}) ^ 2 + ({lit(p[1])} - {lit(q[1])}) ^ 2 + 1 / 10000)'
            goals.append((f'tps-row#{ci}', f'({r2} * ln {r2})', float(W[i][j]), '(1 / 100000000)'))
        # generated term for M = 4, 5 with the captured coefficients, at random points
        tname = f'custom_enforce_{M}'
        if res is not None and 'terms' in res.get(tname, {}):
            term = res[tname]['terms'][0]
            pv = {'radius': 0.5}
            for i, p in enumerate(kept):
                pv[f'ax{i}'], pv[f'ay{i}'] = p.loc
            for j in range(M + 3):
                pv[f'c{j}'], pv[f'd{j}'], pv[f'e{j}'] = float(cA[j]), float(cX[j]), float(cY[j])
            pts = [(dy(r, -2, 2, 4), dy(r, -2, 2, 4)) for _ in range(4)]
            XX = enga.col(torch, [p[0] for p in pts]); YY = enga.col(torch, [p[1] for p in pts])
            uu = [float(v) for v in cond.enforce(net, XX, YY).detach().reshape(-1)]
            for i, (x, y) in enumerate(pts):
                mv = ir.feval(term, {'x': x, 'y': y}, pv, {'N': netp.jet})
                ck.traces += 1
                if not enga.close(mv, uu[i], 1 + abs(uu[i]), rel=1e-8):
                    ck.broke('correspondence-broken', f'pyfront:{tname}', f'point {pts[i]}: model {mv!r} impl {uu[i]!r}')
                    break


def run_cases(ck, res, n, n_interval):
    torch = enga.import_repo()
    from neurodiffeq import conditions as C
    from neurodiffeq.neurodiffeq import safe_diff
    r = ck.rng('cases')
    goals, dist = [], {}
    run_box(ck, res, n, goals, n_interval, torch, C, safe_diff, r, dist)
    run_ibvp(ck, res, n, goals, 2 * n_interval, torch, C, safe_diff, r, dist)
    run_irregular(ck, res, max(15, n // 2), goals, 2 * n_interval, torch, r, dist)
    for names in (['x_min_val', 'x_min_prime', 'x_max_val'], ['x_max_val', 'x_max_prime']):
        ck.add_case(('ibvp-reject', tuple(names)))
        try:
            C.IBVP1D(x_min=0.0, x_max=1.0, t_min=0.0, t_min_val=lambda x: x, **{k: (lambda t: t) for k in names})
            ck.fail('ibvp/accepts-ill-formed', f'IBVP1D accepted {names}', {'names': names})
        except NotImplementedError:
            pass
    ck.extra['input_distribution'] = dist
    return goals


def main():
    ck = Check('C02')
    ck.rule = ('rectangle: random rectangles of either orientation x boundary data derived from a random smooth field G x probe networks '
               '(multi-net and output-unit), 5 interior points on each of the 4 edges + corners + interior points; IBVP1D: the 4 modes, '
               'G-derived initial/boundary data (Neumann data = dG/dx), rows along t = t_min, x = x_min, x = x_max; irregular: 4..16 '
               'distinct control points on a perturbed ellipse around a centre, np.linalg.solve spied (system rows, right-hand sides, '
               'residual) and the generated 4/5-point terms evaluated with the captured coefficients')
    ck.step_hygiene()
    res = ck.step_generate('Gen_C02', TARGETS)
    if res is not None:
        ck.step_prove('P_C02')
    n = 2400 if ck.thorough() else 32
    goals = run_cases(ck, res, n, 30 if ck.thorough() else 3)
    if res is not None:
        ck.step_interval_goals('corr', goals)
    if ck.broken and not ck.failures:
        ck.notes.append('search: re-ran the implementation oracle on 4x more inputs after a broken obligation')
        run_cases(ck, None, n * 4, 0)
    ck.finish(
        trusted_extra=['Interval (interval tactic; supports ln) for in-kernel correspondence goals',
                       'hand model coq/model/TPS.v tied to the regenerated 4- and 5-point terms; equation_weights (numpy) tied only by the harness (spied system rows)',
                       'modelled not verified: np.linalg.solve (hypothesis "c solves the rows"), IEEE-754 rounding of the ill-conditioned spline system, torch.autograd (= D)'],
        assumptions=['boundary data are derived from an arbitrary field G', 'x_1 <> x_0, y_1 <> y_0, x_max <> x_min (either orientation)',
                     'irregular domain: no Neumann control points; _clean_control_points keeps all points (checked per case)'])


if __name__ == '__main__':
    main()
