#!/venv/bin/python
"""C11 — spherical shell, infinite-domain and coefficient-space conditions.  Engine A.
DESIGN.md section 7, C11."""
import math
import os
import sys

sys.path.insert(0, os.path.join(os.path.dirname(os.path.abspath(__file__)), '..'))
from common import Check
from pyfront import ir
from props.t_C11 import TARGETS
from harness import enga
from harness.probes import Probe, make_net, dy

KINDS = ['shell2', 'shell1', 'inf', 'basis2', 'basis1', 'inf_basis']


def run_cases(ck, res, n_cases, n_interval):
    torch = enga.import_repo()
    from neurodiffeq import conditions as C
    r = ck.rng('cases')
    goals, dist = [], {}
    for ci in range(n_cases):
        kind = KINDS[ci % len(KINDS)]
        r0 = dy(r, 0, 3)
        d = (dy(r, 0, 3) + 0.125) * (r.choice([-1, 1]) if kind in ('shell2', 'basis2') and r0 > 3.2 else 1)
        if kind in ('shell2', 'basis2') and r.random() < 0.4:
            r0, d = r0 + 3.5, -(dy(r, 0, 3) + 0.125)          # r_0 > r_1 orientation
        r1 = r0 + d
        if kind in ('shell2', 'basis2') and r0 > 0 and r.random() < 0.15:
            r1 = 0.0                                            # reversed orientation ending exactly at the origin
        k = dy(r, 0.125, 4)
        bounded = kind in ('inf', 'inf_basis')
        # very fast decay far from the origin: k * r_0 in the hundreds or thousands (exp(k r_0) alone overflows; the
        # condition only ever needs exp(-k (r - r_0)) for r >= r_0)
        bigk = bounded and r.random() < 0.2
        if bigk:
            k, r0 = r.choice([256.0, 1024.0]), max(r0, 1.0) + r.choice([0.0, 40.0])
        rr = (lambda: r0 + dy(r, 0, 8, 4)) if bigk else (lambda: dy(r, 0, 8, 4))
        nk = ('one', 'sin') if bounded else ('one', 'pow', 'sin')
        if kind in ('shell2', 'shell1', 'inf'):
            net_p = Probe(3, r, kinds=nk)
            f_p, g_p = Probe(2, r, kinds=('one', 'sin', 'pow')), Probe(2, r, kinds=('one', 'sin', 'pow'))
            if r.random() < 0.25:
                # a network whose parameters are float32 while the samples are float64 (mixed precision): the boundary data
                # must still be evaluated at the float64 coordinates
                with enga.default_dtype(torch, torch.float32):
                    net = make_net([net_p])
            else:
                net = make_net([net_p])
            f = lambda th, ph: f_p.torch(th, ph)
            g = lambda th, ph: g_p.torch(th, ph)
            pos = r.random() < 0.3        # documented positional order: (r_0, f, r_1, g) / (r_0, f, g, order)
            if kind == 'shell2':
                cond = C.DirichletBVPSpherical(r0, f, r1, g) if pos else C.DirichletBVPSpherical(r_0=r0, f=f, r_1=r1, g=g)
            elif kind == 'shell1':
                cond = C.DirichletBVPSpherical(r0, f) if pos else C.DirichletBVPSpherical(r_0=r0, f=f)
            else:
                cond = C.InfDirichletBVPSpherical(r0, f, g, k) if pos else C.InfDirichletBVPSpherical(r_0=r0, f=f, g=g, order=k)
            rs = [r0] + ([r1] if kind == 'shell2' else []) + [rr() for _ in range(3)]
            nd = lambda v: v + r.choice([0.01, 0.003, 1.0 / 300.0]) if r.random() < 0.4 else v      # not float32-representable
            ths = [nd(dy(r, 0, 3.125, 4)) for _ in rs]
            # longitudes in either convention ([0, 2 pi), (-pi, pi]) and beyond: f and g are the user's functions of the phi GIVEN
            phs = [nd(dy(r, -7, 13, 4)) for _ in rs]
            R, TH, PH = enga.col(torch, rs), enga.col(torch, ths), enga.col(torch, phs)
            u = [float(v) for v in cond.enforce(net, R, TH, PH).detach().reshape(-1)]
            pv = {'r_0': r0, 'r_1': r1, 'order': k}
            inp = {'kind': kind, 'params': pv, 'net': net_p.describe(), 'f': f_p.describe(), 'g': g_p.describe(), 'r': rs, 'theta': ths, 'phi': phs}
            scale = 1 + max(abs(v) for v in u)
            fv = f_p.jet((0, 0), [ths[0], phs[0]])
            if not enga.close(u[0], fv, scale, rel=enga.EXACT):
                ck.fail(f'{kind}/inner', f'{kind}: value at r = r_0 is {u[0]!r}, prescribed f = {fv!r}', inp, expected=fv, actual=u[0])
            if kind == 'shell2':
                gv = g_p.jet((0, 0), [ths[1], phs[1]])
                if not enga.close(u[1], gv, scale, rel=enga.EXACT):
                    ck.fail(f'{kind}/outer', f'{kind}: value at r = r_1 is {u[1]!r}, prescribed g = {gv!r}', inp, expected=gv, actual=u[1])
            if kind == 'inf':
                # convergence to g for a bounded network: error bound A e^{-k d} + B e^{-2 d}
                far = [r0 + 12.0 / min(k, 2.0), r0 + 24.0 / min(k, 2.0)]
                RF = enga.col(torch, far); TF = enga.col(torch, [ths[0]] * 2); PF = enga.col(torch, [phs[0]] * 2)
                uf = [float(v) for v in cond.enforce(net, RF, TF, PF).detach().reshape(-1)]
                gv = g_p.jet((0, 0), [ths[0], phs[0]])
                bound = sum(abs(c) for c, _ in net_p.terms) + abs(fv) + 2 * abs(gv) + 1
                if not (abs(uf[0] - gv) <= bound * 2e-5 and abs(uf[1] - gv) <= bound * 1e-9):
                    ck.fail('inf/limit', f'InfDirichletBVPSpherical does not approach g: |u-g| = {abs(uf[0]-gv)!r}, {abs(uf[1]-gv)!r} at d = 12/k, 24/k', inp, expected=gv, actual=uf)
            dist[kind] = dist.get(kind, 0) + 1
            ck.add_case((kind, str(pv), str(inp['net']), str(rs)))
            if ci < 6:
                ck.sample({'kind': kind, 'params': pv, 'net': inp['net'], 'r': rs, 'impl': u[:3]})
            if res is None or 'terms' not in res.get(kind, {}):
                continue
            term = res[kind]['terms'][0]
            fenv = {'N': net_p.jet, 'f': f_p.jet, 'g': g_p.jet}
            for i in range(len(rs)):
                venv = {'r': rs[i], 'theta': ths[i], 'phi': phs[i]}
                mv = ir.feval(term, venv, pv, fenv)
                ck.traces += 1
                if not enga.close(mv, u[i], scale):
                    ck.broke('correspondence-broken', f'pyfront:{kind}', f'row {i}: model {mv!r} impl {u[i]!r} input {inp}')
                    break
            if len(goals) < n_interval:
                i = len(rs) - 1
                venv = {'r': rs[i], 'theta': ths[i], 'phi': phs[i]}
                goals.append(enga.interval_goal(f'{kind}#{ci}', term, venv, pv, {'N': net_p, 'f': f_p, 'g': g_p}, u[i], scale,
                                                gen=('Gen_C11', kind, 'term'), names=res[kind]['names']))
        else:
            W = r.choice([1, 2, 3, 4, 5, 9, 25])
            cols = [Probe(1, r, nterms=2, kinds=nk) for _ in range(W)]
            net = make_net(cols)
            shape = r.choice(['vec', 'row', 'scalar'])
            mk = lambda: ([dy(r, -3, 3)] * W if shape == 'scalar' else [dy(r, -3, 3) for _ in range(W)])
            R0v, R1v = mk(), mk()
            def as_t(v):
                if shape == 'scalar':
                    return v[0]
                t = torch.tensor(v, dtype=torch.float64)
                return t.reshape(1, W) if shape == 'row' else t
            pos = r.random() < 0.3        # documented positional order: (r_0, R_0, r_1, R_1) / (r_0, R_0, R_inf, order)
            if kind == 'basis2':
                cond = C.DirichletBVPSphericalBasis(r0, as_t(R0v), r1, as_t(R1v)) if pos else C.DirichletBVPSphericalBasis(r_0=r0, R_0=as_t(R0v), r_1=r1, R_1=as_t(R1v))
            elif kind == 'basis1':
                cond = C.DirichletBVPSphericalBasis(r0, as_t(R0v)) if pos else C.DirichletBVPSphericalBasis(r_0=r0, R_0=as_t(R0v))
            else:
                cond = C.InfDirichletBVPSphericalBasis(r0, as_t(R0v), as_t(R1v), k) if pos else C.InfDirichletBVPSphericalBasis(r_0=r0, R_0=as_t(R0v), R_inf=as_t(R1v), order=k)
            rs = [r0] + ([r1] if kind == 'basis2' else []) + [rr() for _ in range(2)]
            if kind == 'inf_basis':
                rs += [r0 + 12.0 / min(k, 2.0), r0 + 24.0 / min(k, 2.0)]
            # the coincidence "number of rows == number of coefficients" (a flat per-column vector must never be read as a
            # per-row vector): pad with interior rows until n == W in most of the vector-shaped cases
            nb = 2 if kind == 'basis2' else 1
            if shape == 'vec' and W > len(rs) and r.random() < 0.7:
                rs = rs[:nb] + [rr() for _ in range(W - len(rs))] + rs[nb:]
            out = cond.enforce(net, enga.col(torch, rs)).detach()
            inp = {'kind': kind, 'width': W, 'shape': shape, 'params': {'r_0': r0, 'r_1': r1, 'order': k}, 'R_0': R0v, 'R_1': R1v,
                   'net': [c.describe() for c in cols], 'r': rs}
            if tuple(out.shape) != (len(rs), W):
                ck.fail(f'{kind}/shape', f'{kind}: output shape {tuple(out.shape)} for width {W}', inp)
                continue
            dist[kind] = dist.get(kind, 0) + 1
            ck.add_case((kind, W, shape, str(inp['params']), str(rs)))
            if ci < 10:
                ck.sample({'kind': kind, 'width': W, 'shape': shape, 'params': inp['params'], 'r': rs})
            for j in range(W):
                u = [float(out[i, j]) for i in range(len(rs))]
                scale = 1 + max(abs(v) for v in u)
                if not enga.close(u[0], R0v[j], scale, rel=enga.EXACT):
                    ck.fail(f'{kind}/inner', f'{kind}: column {j} at r = r_0 is {u[0]!r}, prescribed {R0v[j]!r}', inp, expected=R0v[j], actual=u[0])
                if kind == 'basis2' and not enga.close(u[1], R1v[j], scale, rel=enga.EXACT):
                    ck.fail(f'{kind}/outer', f'{kind}: column {j} at r = r_1 is {u[1]!r}, prescribed {R1v[j]!r}', inp, expected=R1v[j], actual=u[1])
                if kind == 'inf_basis':
                    bound = sum(abs(c) for c, _ in cols[j].terms) + abs(R0v[j]) + 2 * abs(R1v[j]) + 1
                    if not (abs(u[-2] - R1v[j]) <= bound * 2e-5 and abs(u[-1] - R1v[j]) <= bound * 1e-9):
                        ck.fail('inf_basis/limit', f'column {j} does not approach R_inf: errors {abs(u[-2]-R1v[j])!r}, {abs(u[-1]-R1v[j])!r}', inp)
                if res is None or 'terms' not in res.get(kind, {}):
                    continue
                term = res[kind]['terms'][0]
                pv = {'r_0': r0, 'r_1': r1, 'order': k, 'R_0': R0v[j], 'R_1': R1v[j], 'R_inf': R1v[j]}
                for i in range(len(rs)):
                    mv = ir.feval(term, {'r': rs[i]}, pv, {'N': cols[j].jet})
                    ck.traces += 1
                    if not enga.close(mv, u[i], scale):
                        ck.broke('correspondence-broken', f'pyfront:{kind}', f'column {j} row {i}: model {mv!r} impl {u[i]!r} input {inp}')
                        break
    # rejected constructor calls
    for label, fn in (('shell', lambda: C.DirichletBVPSpherical(r_0=1.0, f=lambda a, b: a, r_1=2.0)),
                      ('basis', lambda: C.DirichletBVPSphericalBasis(r_0=1.0, R_0=0.0, R_1=1.0))):
        ck.add_case(('reject', label))
        try:
            fn()
            ck.fail(f'{label}/accepts-half-specified', f'{label} condition accepted r_1/g half specified', {'which': label})
        except ValueError:
            pass
    ck.extra['input_distribution'] = dist
    return goals


def main():
    ck = Check('C11')
    ck.rule = ('cases = condition kind (two-sided/one-sided shell, infinite, and their coefficient-space variants) x r_0 >= 0, r_1 on '
               'either side x decay order in (0,4] x probe networks (bounded for the infinite variants) x smooth angular data x '
               'coefficient widths {1,2,3,5,9,25} given as scalar/(W,)/(1,W); rows at r_0, r_1, random radii and (infinite) at '
               'd = 12/k, 24/k; every row/column compared between generated term and real enforce()')
    ck.step_hygiene()
    res = ck.step_generate('Gen_C11', TARGETS)
    if res is not None:
        ck.step_prove('P_C11')
    n = 7500 if ck.thorough() else 60
    goals = run_cases(ck, res, n, 60 if ck.thorough() else 6)
    if res is not None:
        ck.step_interval_goals('corr', goals)
    if ck.broken and not ck.failures:
        ck.notes.append('search: re-ran the implementation oracle on 5x more inputs after a broken obligation')
        run_cases(ck, None, n * 5, 0)
    ck.finish(
        trusted_extra=['Coquelicot (is_lim), Interval (interval tactic)',
                       'modelled not verified: IEEE-754 rounding, element-wise broadcasting of the coefficient-space formulas (checked per column by the harness)'],
        assumptions=['networks/boundary data are function symbols with arbitrary values; bounded network for the limit theorems',
                     'r_1 <> r_0 (either orientation)'])


if __name__ == '__main__':
    main()
