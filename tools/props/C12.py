#!/venv/bin/python
"""C12 — condition composition: ensembles and output-unit selection act column-wise.  Engine A.
DESIGN.md section 7, C12."""
import inspect
import math
import os
import sys
import warnings

sys.path.insert(0, os.path.join(os.path.dirname(os.path.abspath(__file__)), '..'))
from common import Check
from pyfront import ir
from props.t_C12 import TARGETS
from harness import enga
from harness.probes import Probe, make_net, dy


def make_sub(C, torch, r, m):
    """A random closed-form sub-condition for m input columns -> (condition, description)."""
    if m == 1:
        k = r.choice(['ivp', 'ivp_prime', 'dbvp', 'none', 'debvp_dd'])
        t0 = dy(r, -2, 2); t1 = t0 + r.choice([-1, 1]) * (dy(r, 0, 2) + 0.25)
        if k == 'ivp':
            return C.IVP(t_0=t0, u_0=dy(r, -3, 3)), k
        if k == 'ivp_prime':
            return C.IVP(t_0=t0, u_0=dy(r, -3, 3), u_0_prime=dy(r, -3, 3)), k
        if k == 'dbvp':
            return C.DirichletBVP(t_0=t0, u_0=dy(r, -3, 3), t_1=t1, u_1=dy(r, -3, 3)), k
        if k == 'debvp_dd':
            # parameterize-only use inside an ensemble (its enforce is overridden, so force is needed): skip
            return C.NoCondition(), 'none'
        return C.NoCondition(), k
    if m == 2:
        k = r.choice(['bvp2d', 'none', 'bundle_ivp'])
        if k == 'bvp2d':
            p = [Probe(1, r, nterms=1, kinds=('one', 'pow')) for _ in range(4)]
            x0, y0 = dy(r, -1, 1), dy(r, -1, 1)
            return C.DirichletBVP2D(x_min=x0, x_min_val=lambda y: p[0].torch(y), x_max=x0 + 1.5, x_max_val=lambda y: p[1].torch(y),
                                    y_min=y0, y_min_val=lambda x: p[2].torch(x), y_max=y0 + 2.0, y_max_val=lambda x: p[3].torch(x)), k
        if k == 'bundle_ivp':
            return C.BundleIVP(t_0=dy(r, -1, 1), u_0=dy(r, -2, 2), bundle_param_lookup={'u_0': 0}), k
        return C.NoCondition(), k
    if m == 3:
        k = r.choice(['shell1', 'shell2', 'inf', 'none'])
        f = Probe(2, r, nterms=1, kinds=('one', 'sin')); g = Probe(2, r, nterms=1, kinds=('one', 'sin'))
        if k == 'shell1':
            return C.DirichletBVPSpherical(r_0=dy(r, 0, 2), f=lambda a, b: f.torch(a, b)), k
        if k == 'shell2':
            r0 = dy(r, 0, 2)
            return C.DirichletBVPSpherical(r_0=r0, f=lambda a, b: f.torch(a, b), r_1=r0 + 1.25, g=lambda a, b: g.torch(a, b)), k
        if k == 'inf':
            return C.InfDirichletBVPSpherical(r_0=dy(r, 0, 2), f=lambda a, b: f.torch(a, b), g=lambda a, b: g.torch(a, b), order=dy(r, 0.25, 3)), k
        return C.NoCondition(), k
    return C.NoCondition(), 'none'


def run_cases(ck, res, n_cases, n_interval):
    torch = enga.import_repo()
    from neurodiffeq import conditions as C
    r = ck.rng('cases')
    goals, dist = [], {'tuple_kinds': {}, 'widths': {}}
    # ---- (1) real tuples of closed-form sub-conditions
    for ci in range(n_cases):
        k = r.randint(1, 4)
        m = r.randint(1, 4)
        subs, kinds = zip(*[make_sub(C, torch, r, m) for _ in range(k)])
        if k >= 2 and ci % 4 == 2:
            # the SAME condition object at several positions (EnsembleCondition(ivp, ivp), *[cond] * 3): column j must still be
            # sub-condition j applied to output j, not to the output of the object's first occurrence
            subs, kinds = list(subs), list(kinds)
            j1 = r.randrange(k)
            for j2 in range(k):
                if j2 != j1 and r.random() < 0.7:
                    subs[j2], kinds[j2] = subs[j1], kinds[j1] + '(same object)'
            subs, kinds = tuple(subs), tuple(kinds)
        if ci % 4 == 1:
            # sub-conditions that still carry an `ith_unit` from earlier stand-alone use (set_impose_on is never undone by
            # the legacy API): inside an ensemble, column i is still sub-condition i on output i
            kinds = list(kinds)
            for j2, sub in enumerate(subs):
                if r.random() < 0.6:
                    with warnings.catch_warnings():
                        warnings.simplefilter('ignore')
                        sub.set_impose_on(r.randrange(4))
                    kinds[j2] += f'(ith_unit={sub.ith_unit})'
            kinds = tuple(kinds)
        nrows = 3
        X = [enga.col(torch, [dy(r, -2, 2, 4) if m != 3 or j else dy(r, 0.25, 3, 4) for _ in range(nrows)]) for j in range(m)]
        ncols = k if ci % 7 else k + r.choice([-1, 1, 2])           # every 7th case: mismatching width
        ncols = max(ncols, 1) if ncols != k else k
        net = make_net([Probe(m, r, nterms=2) for _ in range(ncols)])
        inp = {'sub_conditions': kinds, 'input_width': m, 'net_outputs': ncols, 'points': [[float(v) for v in x.detach().reshape(-1)] for x in X]}
        try:
            ens = C.EnsembleCondition(*subs)
        except Exception as e:
            ck.fail(f'ensemble/constructor-rejects-{"+".join(sorted(set(kinds)))}',
                    f'EnsembleCondition refused closed-form sub-conditions {kinds}: {type(e).__name__}: {e}', {'sub_conditions': kinds})
            continue
        dist['tuple_kinds'][','.join(kinds)] = dist['tuple_kinds'].get(','.join(kinds), 0) + 1
        dist['widths'][f'k={k},m={m},cols={ncols}'] = dist['widths'].get(f'k={k},m={m},cols={ncols}', 0) + 1
        ck.add_case(('tuple', kinds, m, ncols, ci))
        if ci < 5:
            ck.sample(inp)
        try:
            out = ens.enforce(net, *X)
        except ValueError:
            if ncols == k:
                ck.fail('ensemble/raises-on-matching-width', 'EnsembleCondition raised ValueError on matching widths', inp)
            continue
        except Exception as e:
            if ncols != k:
                continue        # mismatch rejected (some other error type)
            ck.fail('ensemble/raises', f'EnsembleCondition.enforce raised {type(e).__name__}: {e}', inp)
            continue
        if ncols != k:
            ck.fail('ensemble/mismatch-accepted', f'EnsembleCondition accepted {ncols} outputs for {k} sub-conditions', inp)
            continue
        raw = net(torch.cat(X, dim=1))
        if tuple(out.shape) != (nrows, k):
            ck.fail('ensemble/shape', f'ensemble output shape {tuple(out.shape)}', inp)
            continue
        for i, sub in enumerate(subs):
            alone = sub.parameterize(raw[:, i:i + 1], *X)
            ck.traces += 1
            if not torch.allclose(out[:, i:i + 1], alone, rtol=1e-12, atol=1e-12):
                ck.fail(f'ensemble/column-{kinds[i]}', f'column {i} of the ensemble differs from sub-condition {kinds[i]} applied to output {i} alone', inp)
    # ---- (2) opaque sub-conditions: generated term vs real class
    for ci in range(max(16, n_cases // 3)):
        k, m = 1 + ci % 4, 1 + (ci // 4) % 4
        Ps = [Probe(1 + m, r, nterms=2) for _ in range(k)]

        def mk(p):
            class Opaque(C.BaseCondition):
                def parameterize(self, output_tensor, *inputs):
                    return p.torch(output_tensor, *inputs)
            return Opaque()
        ens = C.EnsembleCondition(*[mk(p) for p in Ps])
        pts = [[dy(r, -1, 1, 4) for _ in range(m + k)] for _ in range(2)]
        O = torch.tensor([row[m:] for row in pts], dtype=torch.float64)
        X = [enga.col(torch, [row[j] for row in pts]) for j in range(m)]
        out = ens.parameterize(O, *X).detach()
        ck.add_case(('opaque', k, m, ci))
        tname = f'ens_{k}_{m}'
        if res is None or 'terms' not in res.get(tname, {}):
            continue
        fenv = {f'P{i}': Ps[i].jet for i in range(k)}
        for i, term in enumerate(res[tname]['terms']):
            for ri, row in enumerate(pts):
                venv = {f'x{j}': row[j] for j in range(m)}
                venv.update({f'o{j}': row[m + j] for j in range(k)})
                mv = ir.feval(term, venv, {}, fenv)
                ck.traces += 1
                if not enga.close(mv, float(out[ri, i]), 10.0):
                    ck.broke('correspondence-broken', f'pyfront:{tname}', f'column {i}: model {mv!r} impl {float(out[ri, i])!r}')
        if len(goals) < n_interval:
            row = pts[0]
            venv = {f'x{j}': row[j] for j in range(m)}
            venv.update({f'o{j}': row[m + j] for j in range(k)})
            goals.append(enga.interval_goal(tname, res[tname]['terms'][0], venv, {}, {f'P{i}': Ps[i] for i in range(k)}, float(out[0, 0]), 10.0,
                                            gen=('Gen_C12', tname, 'term_0'), names=res[tname]['names']))
    # ---- (3) NoCondition and output-unit selection
    for kk in range(1, 5):
        for m in range(1, 5):
            net = make_net([Probe(m, r, nterms=2) for _ in range(kk)])
            X = [enga.col(torch, [dy(r, -2, 2, 4) for _ in range(3)]) for _ in range(m)]
            raw = net(torch.cat(X, dim=1))
            out = C.NoCondition().enforce(net, *X)
            ck.add_case(('nocondition', kk, m))
            if tuple(out.shape) != tuple(raw.shape) or not torch.equal(out, raw):
                ck.fail('nocondition/not-identity', f'NoCondition changed the raw output for {m} inputs, {kk} outputs', {'in': m, 'out': kk})
            for unit in list(range(kk)) + [-1, -kk]:       # Python-style negative unit indices address the same columns
                c = C.IVP(t_0=0.5, u_0=1.25) if (m == 1 and unit % 2 == 0) else C.NoCondition()
                with warnings.catch_warnings():
                    warnings.simplefilter('ignore')
                    c.set_impose_on(unit)
                got = c.enforce(net, *X)
                exp = c.parameterize(raw[:, unit % kk:unit % kk + 1], *X)
                ck.add_case(('unit', kk, m, unit))
                if tuple(got.shape) != tuple(exp.shape) or not torch.allclose(got, exp, rtol=1e-12, atol=1e-12):
                    ck.fail('ith_unit/wrong-column', f'ith_unit={unit}: enforce differs from parameterize(output column {unit})', {'in': m, 'out': kk, 'unit': unit})
    # ---- (3b) output-unit selection through EVERY network-calling path of the library (BaseCondition.enforce, the private
    #      ANN closures of IBVP1D / DoubleEndedBVP1D, pde._network_output_2input of CustomBoundaryCondition): a condition
    #      imposed on unit i of a shared network equals the same condition on a network that outputs column i alone
    from neurodiffeq import pde as PDE

    def unit_conditions():
        x0, t0 = dy(r, -1, 1), dy(r, -1, 1)
        pp = [Probe(1, r, nterms=1, kinds=('one', 'pow')) for _ in range(4)]
        yield 'IBVP1D_dd', 2, lambda: C.IBVP1D(x_min=x0, x_max=x0 + 1.5, t_min=t0, t_min_val=lambda x: pp[0].torch(x),
                                               x_min_val=lambda t: pp[1].torch(t), x_max_val=lambda t: pp[2].torch(t))
        yield 'IBVP1D_nn', 2, lambda: C.IBVP1D(x_min=x0, x_max=x0 + 1.5, t_min=t0, t_min_val=lambda x: pp[0].torch(x),
                                               x_min_prime=lambda t: pp[1].torch(t), x_max_prime=lambda t: pp[2].torch(t))
        yield 'DoubleEndedBVP1D_dn', 1, lambda: C.DoubleEndedBVP1D(x_min=x0, x_max=x0 + 1.25, x_min_val=0.5, x_max_prime=-0.75)
        yield 'DirichletBVP2D', 2, lambda: C.DirichletBVP2D(x_min=x0, x_min_val=lambda y: pp[0].torch(y), x_max=x0 + 1.5, x_max_val=lambda y: pp[1].torch(y),
                                                           y_min=t0, y_min_val=lambda x: pp[2].torch(x), y_max=t0 + 2.0, y_max_val=lambda x: pp[3].torch(x))
        fa = Probe(2, r, nterms=1, kinds=('one', 'sin'))
        yield 'DirichletBVPSpherical', 3, lambda: C.DirichletBVPSpherical(r_0=0.5, f=lambda a, b: fa.torch(a, b), r_1=2.0, g=lambda a, b: 2 * fa.torch(a, b))
        locs = [(math.cos(a) * 1.5, math.sin(a)) for a in (0.3, 1.7, 3.0, 4.4, 5.6)]
        vals = [dy(r, -2, 2) for _ in locs]
        yield 'CustomBoundaryCondition', 2, lambda: PDE.CustomBoundaryCondition(center_point=PDE.Point((0.0, 0.0)),
                                                                               dirichlet_control_points=[PDE.DirichletControlPoint(loc=l, val=v) for l, v in zip(locs, vals)])
    for rep in range(2 if n_cases > 200 else 1):
        for cname, m, mkc in unit_conditions():
            kk = r.randint(2, 4)
            cols = [Probe(m, r, nterms=2) for _ in range(kk)]
            shared = make_net(cols)
            nrows = r.choice([2, 3, 5])
            X = [enga.col(torch, [dy(r, 0.6, 1.9, 4) if (m == 3 and j == 0) else dy(r, -0.9, 0.9, 4) for _ in range(nrows)]) for j in range(m)]
            for unit in list(range(kk)) + [-1]:
                ck.add_case(('unit-path', cname, kk, unit, rep))
                try:
                    with warnings.catch_warnings():
                        warnings.simplefilter('ignore')
                        c_sel = mkc(); c_sel.set_impose_on(unit)
                        got = c_sel.enforce(shared, *X)
                        exp = mkc().enforce(make_net([cols[unit % kk]]), *X)
                except Exception as e:
                    ck.fail(f'ith_unit/{cname}/raises', f'{cname} with set_impose_on({unit}) raised {type(e).__name__}: {e}', {'class': cname, 'outputs': kk, 'unit': unit})
                    continue
                if tuple(got.shape) != tuple(exp.shape) or not torch.allclose(got, exp, rtol=1e-11, atol=1e-11):
                    ck.fail(f'ith_unit/{cname}/wrong-column', f'{cname} imposed on unit {unit} of a {kk}-output network differs from the same condition on that column alone',
                            {'class': cname, 'outputs': kk, 'unit': unit, 'rows': nrows, 'net': [c.describe() for c in cols]})
    # ---- (4) the constructor's override test on the real classes
    for name, cls in inspect.getmembers(C, inspect.isclass):
        if not issubclass(cls, C.BaseCondition) or cls is C.BaseCondition:
            continue
        obj = object.__new__(cls)
        overrides = cls.enforce is not C.BaseCondition.enforce
        ck.add_case(('override', name))
        try:
            C.EnsembleCondition(obj)
            raised = False
        except ValueError:
            raised = True
        if raised != overrides:
            ck.fail(f'ensemble/override-test-{name}', f'EnsembleCondition({name}()) raised={raised} but class overrides enforce={overrides}', {'class': name})
        with warnings.catch_warnings():
            warnings.simplefilter('ignore')
            try:
                C.EnsembleCondition(obj, force=True)
            except Exception as e:
                ck.fail(f'ensemble/force-{name}', f'EnsembleCondition({name}(), force=True) raised {type(e).__name__}', {'class': name})
    ck.extra['input_distribution'] = dist
    return goals


def main():
    ck = Check('C12')
    ck.rule = ('(1) random tuples of 1..4 closed-form sub-conditions (IVP, IVP+derivative, two-point BVP, rectangle BVP, bundle IVP, '
               'spherical shell one/two-sided, infinite, no-op) for input widths 1..4 on multi-output probe networks of matching and '
               'mismatching width: each ensemble column vs the sub-condition applied to that output alone; (2) opaque sub-conditions '
               'P_i(o, inputs) for k,m in 1..4: generated term vs real class; (3) NoCondition and set_impose_on for all widths/units; '
               '(4) the enforce-override test on every condition class')
    ck.step_hygiene()
    res = ck.step_generate('Gen_C12', TARGETS)
    if res is not None:
        ck.step_prove('P_C12')
    n = 8000 if ck.thorough() else 90
    goals = run_cases(ck, res, n, 30 if ck.thorough() else 4)
    if res is not None:
        ck.step_interval_goals('corr', goals)
    if ck.broken and not ck.failures:
        ck.notes.append('search: re-ran the implementation oracle on 4x more inputs after a broken obligation')
        run_cases(ck, None, n * 4, 0)
    ck.finish(
        trusted_extra=['Interval (interval tactic)', 'modelled not verified: torch.cat / column slicing semantics (checked by the harness), IEEE-754 rounding'],
        assumptions=['a sub-condition parameterize is a row-wise function of its own output column and the inputs'])


if __name__ == '__main__':
    main()
