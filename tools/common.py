"""Shared machinery of the /verif checks: paths, Coq build under a lock, hygiene scan,
Print Assumptions harvest, in-kernel `interval` correspondence goals, replay files, known
findings, evidence files and the decision protocol of DESIGN.md section 5."""
import fcntl
import glob
import hashlib
import json
import os
import random
import re
import subprocess
import sys
import time

VERIF = os.path.dirname(os.path.dirname(os.path.abspath(__file__)))
REPO = os.environ.get('VERIF_REPO', '/repo')
COQ = os.path.join(VERIF, 'coq')
GEN = os.path.join(COQ, 'gen')
BUILD = os.path.join(VERIF, 'build')
PY = '/venv/bin/python'
sys.path.insert(0, os.path.join(VERIF, 'tools'))

os.makedirs(BUILD, exist_ok=True)
os.makedirs(GEN, exist_ok=True)
os.makedirs(os.path.join(VERIF, 'evidence'), exist_ok=True)
os.makedirs(os.path.join(VERIF, 'replays'), exist_ok=True)

COQ_FLAGS = ['-Q', 'lib', 'ND.lib', '-Q', 'model', 'ND.model', '-Q', 'gen', 'ND.gen', '-Q', 'proofs', 'ND.proofs',
             '-Q', 'props', 'ND.props', '-Q', 'findings', 'ND.findings']

FORBIDDEN = re.compile(
    r'\b(Admitted|admit|Axiom|Axioms|Parameter|Parameters|Conjecture|Conjectures|Admit\s+Obligations)\b'
    r'|Unset\s+Guard|bypass_check|type-in-type|impredicative-set|Unset\s+Universe\s+Checking|Unset\s+Positivity')


class Lock:
    """Exclusive around anything that writes the shared Coq tree (generation, make); shared
    (shared=True) around scratch compilations in build/ that only read compiled files."""
    def __init__(self, shared=False):
        self.shared = shared

    def __enter__(self):
        self.f = open(os.path.join(BUILD, '.lock'), 'a')
        fcntl.flock(self.f, fcntl.LOCK_SH if self.shared else fcntl.LOCK_EX)
        return self

    def __exit__(self, *a):
        fcntl.flock(self.f, fcntl.LOCK_UN)
        self.f.close()


def strip_comments(text):
    out, depth, i = [], 0, 0
    while i < len(text):
        if text.startswith('(*', i):
            depth += 1; i += 2
        elif text.startswith('*)', i) and depth:
            depth -= 1; i += 2
        else:
            if not depth:
                out.append(text[i])
            i += 1
    return ''.join(out)


def hygiene():
    """Scan the whole Coq development (hand-written and generated) for forbidden constructs and
    for Variable/Hypothesis outside a Section.  Returns a list of problems."""
    bad = []
    for path in sorted(glob.glob(os.path.join(COQ, '*', '*.v'))) + sorted(glob.glob(os.path.join(BUILD, '*.v'))):
        text = strip_comments(open(path).read())
        # strings inside Coq (e.g. messages) are rare; scan the comment-free text
        for m in FORBIDDEN.finditer(text):
            bad.append(f'{os.path.relpath(path, VERIF)}: forbidden `{m.group(0)}`')
        depth = 0
        for line in text.splitlines():
            s = line.strip()
            if re.match(r'^Section\b', s):
                depth += 1
            elif re.match(r'^End\b', s) and depth:
                depth -= 1   # also matches Module End; harmless (only decreases when > 0)
            elif depth == 0 and re.match(r'^(Variable|Variables|Hypothesis|Hypotheses|Context)\b', s):
                bad.append(f'{os.path.relpath(path, VERIF)}: `{s.split()[0]}` outside a Section')
    return bad


def coq_project_files():
    files = []
    for d in ('lib', 'model', 'gen', 'proofs', 'props'):
        files += sorted(os.path.relpath(p, COQ) for p in glob.glob(os.path.join(COQ, d, '*.v')))
    return files


def ensure_makefile():
    files = coq_project_files()
    text = '-Q lib ND.lib\n-Q model ND.model\n-Q gen ND.gen\n-Q proofs ND.proofs\n-Q props ND.props\n-Q findings ND.findings\n' + '\n'.join(files) + '\n'
    cp = os.path.join(COQ, '_CoqProject.all')
    old = open(cp).read() if os.path.exists(cp) else None
    if old != text or not os.path.exists(os.path.join(COQ, 'Makefile')):
        with open(cp, 'w') as f:
            f.write(text)
        subprocess.run(['coq_makefile', '-f', '_CoqProject.all', '-o', 'Makefile'], cwd=COQ, check=True,
                       stdout=subprocess.DEVNULL, stderr=subprocess.DEVNULL)


def coq_make(targets, timeout=1500, jobs=8):
    """make the given .vo targets (paths relative to coq/).  Full .vo builds only."""
    with Lock():
        ensure_makefile()
        t0 = time.time()
        try:
            p = subprocess.run(['timeout', str(timeout), 'make', f'-j{jobs}'] + list(targets), cwd=COQ,
                               stdout=subprocess.PIPE, stderr=subprocess.STDOUT, text=True)
            ok, log = p.returncode == 0, p.stdout
        except Exception as e:   # pragma: no cover
            ok, log = False, str(e)
        return ok, log, time.time() - t0


def coqc_file(path, timeout=600):
    """Compile one scratch file of build/ (cases, interval goals, Print Assumptions)."""
    with Lock(shared=True):
        p = subprocess.run(['timeout', str(timeout), 'coqc'] + COQ_FLAGS + ['-Q', BUILD, 'ND.build', path], cwd=COQ,
                           stdout=subprocess.PIPE, stderr=subprocess.STDOUT, text=True)
    return p.returncode == 0, p.stdout


def first_error(log):
    m = re.search(r'File "([^"]+)", line (\d+), characters [^\n]*\n(Error:.*?)(?:\n\n|\Z)', log, re.S)
    if m:
        return {'file': m.group(1), 'line': int(m.group(2)), 'error': ' '.join(m.group(3).split())[:600]}
    tail = ' '.join(log.strip().splitlines()[-5:])[:600]
    return {'file': None, 'line': None, 'error': tail}


def theorem_at(path, line):
    """Name of the Theorem/Lemma/Example enclosing `line` of a .v file."""
    try:
        lines = open(path if os.path.isabs(path) else os.path.join(COQ, path)).read().splitlines()
    except OSError:
        return None
    for i in range(min(line, len(lines)) - 1, -1, -1):
        m = re.match(r'\s*(Theorem|Lemma|Example|Corollary|Definition|Goal)\s+(\w+)?', lines[i])
        if m:
            return m.group(2) or 'Goal'
    return None


def theorems_of(prop_file):
    text = strip_comments(open(os.path.join(COQ, prop_file)).read())
    return re.findall(r'^\s*Theorem\s+(\w+)', text, re.M)


def harvest_assumptions(pid, module, theorems, per_theorem=False):
    """Print Assumptions of the property theorems, from a scratch file compiled on every run.
    Quick tier: one aggregate term (shared dependencies traversed once); thorough: per theorem."""
    path = os.path.join(BUILD, f'PA_{pid}.v')
    with open(path, 'w') as f:
        f.write(f'From ND.props Require Import {module}.\n')
        if per_theorem:
            for t in theorems:
                f.write(f'Print Assumptions {t}.\n')
        else:
            f.write('Definition pa_all := (' + ', '.join('@' + t for t in theorems) + ', tt).\n')
            f.write('Print Assumptions pa_all.\n')
    ok, log = coqc_file(path)
    axioms = set()
    closed = 0
    for line in log.splitlines():
        m = re.match(r'^([A-Za-z_][\w.]*)\s*$', line.strip()) or re.match(r'^([A-Za-z_][\w.]*)\s*:', line.strip())
        if 'Closed under the global context' in line:
            closed += 1
        elif m and '.' in m.group(1) and not line.startswith(' '):
            axioms.add(m.group(1))
    return ok, sorted(axioms), closed, log


def rng(seed, *salt):
    h = hashlib.sha256(('/'.join([str(seed)] + [str(s) for s in salt])).encode()).hexdigest()
    return random.Random(int(h[:16], 16))


def load_known_findings(pid):
    """known_findings.json (committed, never written at run time); known_findings.d/*.json are
    per-property fragments with the same format, merged on load."""
    out = []
    paths = [os.path.join(VERIF, 'known_findings.json')] + sorted(glob.glob(os.path.join(VERIF, 'known_findings.d', '*.json')))
    for path in paths:
        if os.path.exists(path):
            data = json.load(open(path))
            out += [e for e in data.get('findings', []) if e.get('property') == pid]
    return out


def write_replay(pid, payload):
    blob = json.dumps(payload, sort_keys=True, default=str)
    h = hashlib.sha256(blob.encode()).hexdigest()[:12]
    path = os.path.join(VERIF, 'replays', f'{pid}_{h}.json')
    with open(path, 'w') as f:
        json.dump(payload, f, indent=1, sort_keys=True, default=str)
    return path


class Check:
    """One run of one property's check.  A property script fills in obligations, broken
    obligations, oracle failures and samples, then calls finish()."""

    def __init__(self, pid, argv=None):
        argv = sys.argv[1:] if argv is None else argv
        self.pid = pid
        self.tier = os.environ.get('VERIF_TIER', 'quick')
        self.replay = None
        i = 0
        while i < len(argv):
            if argv[i] == '--tier':
                self.tier = argv[i + 1]; i += 2
            elif argv[i] == '--replay':
                self.replay = argv[i + 1]; i += 2
            else:
                i += 1
        if self.tier not in ('quick', 'thorough'):
            self.tier = 'quick'
        try:
            self.seed = int(os.environ.get('VERIF_SEED', '0'))
        except ValueError:
            self.seed = 0
        # --replay <file>: default replay = re-run the check deterministically with the seed and tier recorded in
        # the replay file and report whether the recorded input (its key) fails again.  Scripts with their own
        # replay logic read self.replay themselves and set self.replay_handled = True.
        self.replay_payload = None
        self.replay_handled = False
        if self.replay:
            try:
                self.replay_payload = json.load(open(self.replay))
                self.seed = int(self.replay_payload.get('seed', self.seed))
                if self.replay_payload.get('tier') in ('quick', 'thorough'):
                    self.tier = self.replay_payload['tier']
            except (OSError, ValueError) as e:
                print(f'cannot read replay file {self.replay}: {e}')
                sys.exit(2)
        self.t0 = time.time()
        self.obligations = 0          # theorems + in-kernel goals attempted
        self.discharged = 0
        self.broken = []              # dicts {kind, obligation, detail}
        self.failures = []            # dicts {key, what, input, expected, actual}: oracle failures on the implementation
        self.samples = []
        self.evaluations = 0
        self.nontrivial = set()
        self.traces = 0
        self.axioms = []
        self.assumptions = []
        self.extra = {}
        self.rule = ''
        self.notes = []
        self.machinery_errors = []

    # ---- bookkeeping helpers
    def thorough(self):
        return self.tier == 'thorough'

    def rng(self, *salt):
        return rng(self.seed, self.pid, *salt)

    def add_case(self, key, nontrivial=True):
        self.evaluations += 1
        if nontrivial:
            self.nontrivial.add(key)

    def sample(self, s):
        if len(self.samples) < 12:
            self.samples.append(s)

    def broke(self, kind, obligation, detail):
        self.broken.append({'kind': kind, 'obligation': obligation, 'detail': detail})

    def fail(self, key, what, inp, expected=None, actual=None):
        self.failures.append({'key': key, 'what': what, 'input': inp, 'expected': expected, 'actual': actual})

    # ---- the standard Engine-A/B steps
    def step_hygiene(self):
        bad = hygiene()
        if bad:
            for b in bad:
                print('HYGIENE:', b)
            self.machinery_errors += bad
        return not bad

    def step_generate(self, gen_name, targets):
        from pyfront.gen import generate
        with Lock():
            ok, info = generate(REPO, gen_name, targets, GEN)
        if not ok:
            self.broke('translator-refusal', f'pyfront:{gen_name}:{info.get("target")}', info['error'])
            return None
        return info['results']

    def step_prove(self, prop_module, extra_targets=()):
        """Build props/<prop_module>.vo (and what it depends on)."""
        target = f'props/{prop_module}.vo'
        ok, log, secs = coq_make([target] + list(extra_targets))
        thms = theorems_of(f'props/{prop_module}.v')
        self.obligations += len(thms)
        self.extra['proof_build_s'] = round(secs, 1)
        self.extra['theorems'] = thms
        if not ok:
            err = first_error(log)
            name = theorem_at(err['file'], err['line']) if err['file'] else None
            where = f'{err["file"]}:{err["line"]}' if err['file'] else 'make'
            self.broke('proof-broken', f'{where} ({name or "?"})', err['error'])
            self.extra['proof_log_tail'] = log[-1500:]
            return False
        okp, axioms, closed, palog = harvest_assumptions(self.pid, prop_module, thms, per_theorem=self.thorough())
        if not okp:
            self.broke('proof-broken', f'Print Assumptions {prop_module}', first_error(palog)['error'])
            return False
        self.discharged += len(thms)
        self.axioms = axioms
        self.extra['theorems_closed_under_global_context'] = closed
        return True

    def step_interval_goals(self, name, goals, timeout=600):
        """goals: list of (label, coq_real_expr_string, impl_value_float, tol_string).
        Each is an in-kernel correspondence obligation:  |model - impl| <= tol."""
        if not goals:
            return True
        path = os.path.join(BUILD, f'IG_{self.pid}_{name}.v')
        gens = sorted({g['gen'] for g in goals if isinstance(g, dict) and g.get('gen')})
        lines = ['From Coq Require Import Reals List Bool Lra.', 'From Interval Require Import Tactic.']
        for rq in sorted({g['require'] for g in goals if isinstance(g, dict) and g.get('require')}):
            lines.append(rq)
        if gens:
            lines += ['From ND.lib Require Import Expr Tac.', 'From ND.gen Require Import ' + ' '.join(gens) + '.', 'Import ListNotations.']
        lines += ['Open Scope R_scope.', '']
        index = {}
        norm = []
        for i, g in enumerate(goals):
            index[len(lines) + 1] = i
            if isinstance(g, dict):
                norm.append((g['label'], g['goal'], g['value'], ''))
                lines.append(f'Goal {g["goal"]}.')
                lines.append(g.get('proof') or 'Proof. eval_corr_prepare. interval with (i_prec 90). Qed.')
            else:
                (label, expr, val, tol) = g
                norm.append(g)
                lines.append(f'Goal Rabs ({expr} - ({float_lit(val)})) <= {tol}.')
                lines.append('Proof. interval with (i_prec 90). Qed.')
        goals = norm
        with open(path, 'w') as f:
            f.write('\n'.join(lines) + '\n')
        self.obligations += len(goals)
        ok, log = coqc_file(path, timeout=timeout)
        if ok:
            self.discharged += len(goals)
            return True
        err = first_error(log)
        gi = None
        if err['line']:
            for ln in sorted(index):
                if ln <= err['line']:
                    gi = index[ln]
        if gi is None:
            self.broke('correspondence-broken', f'interval:{name}', err['error'])
        else:
            self.discharged += gi
            label = goals[gi][0]
            self.broke('correspondence-broken', f'interval:{name}:{label}',
                       f'model and implementation differ (in-kernel): {goals[gi][1][:300]} vs {goals[gi][2]!r}')
        return False

    def step_cases(self, name, preamble, cases, shard=400, timeout=900):
        """Engine-B correspondence inside Coq.  cases: list of (label, coq_bool_expr): the
        expression compares the executable model's output with what the implementation was
        observed to do.  Every case is evaluated by vm_compute in sharded scratch files
        compiled in parallel.  Returns the labels whose expression evaluated to false (or could
        not be evaluated)."""
        import concurrent.futures
        if not cases:
            return []
        shards = [cases[i:i + shard] for i in range(0, len(cases), shard)]
        paths = []
        for k, sh in enumerate(shards):
            path = os.path.join(BUILD, f'cases_{self.pid}_{name}_{k}.v')
            with open(path, 'w') as f:
                f.write(preamble + '\n')
                f.write('Definition verif_results : list bool := [\n  ' + ';\n  '.join(f'({e})' for _, e in sh) + '].\n')
                f.write('Eval vm_compute in (List.map (fun b : bool => if b then 1 else 0) verif_results).\n')
            paths.append(path)
        self.obligations += len(cases)
        bad = []

        def run(path):
            p = subprocess.run(['timeout', str(timeout), 'coqc'] + COQ_FLAGS + [path], cwd=COQ,
                               stdout=subprocess.PIPE, stderr=subprocess.STDOUT, text=True)
            return p.returncode, p.stdout
        with Lock(shared=True):
            with concurrent.futures.ThreadPoolExecutor(max_workers=8) as ex:
                outs = list(ex.map(run, paths))
        for sh, (rc, out) in zip(shards, outs):
            m = re.search(r'=\s*\[([^\]]*)\]', out, re.S)
            if rc != 0 or not m:
                err = first_error(out)
                self.broke('correspondence-broken', f'cases:{name}', f'case file did not evaluate: {err["error"]}')
                bad += [lbl for lbl, _ in sh]
                continue
            bits = re.findall(r'\d+', m.group(1))
            if len(bits) != len(sh):
                self.broke('correspondence-broken', f'cases:{name}', f'expected {len(sh)} results, parsed {len(bits)}')
                bad += [lbl for lbl, _ in sh]
                continue
            for (lbl, _), b in zip(sh, bits):
                if b == '1':
                    self.discharged += 1
                else:
                    bad.append(lbl)
        return bad

    def step_eval(self, name, preamble, exprs, timeout=300):
        """Ask Coq for the value of model expressions (used to put the model's answer into a
        replay file).  Returns the raw printed values, one string per expression."""
        path = os.path.join(BUILD, f'eval_{self.pid}_{name}.v')
        with open(path, 'w') as f:
            f.write(preamble + '\n')
            for i, e in enumerate(exprs):
                f.write(f'Definition verif_e{i} := ({e}).\nEval vm_compute in verif_e{i}.\n')
        ok, out = coqc_file(path, timeout=timeout)
        vals = re.findall(r'=\s*(.*?)\n\s*:\s', out, re.S)
        return [' '.join(v.split()) for v in vals]

    # ---- decision, replay, evidence
    def finish(self, trusted_extra=(), assumptions=(), level='proof', checker_cmd=None):
        known = load_known_findings(self.pid)
        open_keys = {e['key']: e for e in known if e.get('status') == 'open'}
        violations = []
        seen_known = set()
        for f in self.failures:
            if f['key'] in open_keys:
                seen_known.add(f['key'])
                continue
            violations.append(f)
        for k in sorted(seen_known):
            print(f'KNOWN-FINDING: property={self.pid} {open_keys[k]["what"]}')
        for k, e in open_keys.items():
            if k not in seen_known and e.get('expect_replayed', True):
                print(f'NOTE: known finding {k} was not reproduced in this run')
        lines = []
        reported = set()
        for f in violations:
            if f['key'] in reported:
                continue
            reported.add(f['key'])
            path = write_replay(self.pid, {'property': self.pid, 'kind': 'impl-counterexample', 'key': f['key'],
                                           'what': f['what'], 'input': f['input'], 'expected': f['expected'],
                                           'actual': f['actual'], 'seed': self.seed, 'tier': self.tier,
                                           'broken_obligations': self.broken})
            lines.append(f'VIOLATION property={self.pid} replay={path}')
        if not violations and self.broken:
            # obligations broken, but no failing input on the implementation (after the search the
            # property script has already run): the property is no longer shown to hold.
            # Broken obligations explained by an open known finding were filtered by the script.
            path = write_replay(self.pid, {'property': self.pid, 'kind': 'broken-obligation',
                                           'obligations': self.broken, 'seed': self.seed, 'tier': self.tier,
                                           'note': 'no failing input found on the implementation by the search'})
            lines.append(f'VIOLATION property={self.pid} replay={path} no-failing-input-found')
        wall = time.time() - self.t0
        trusted = ['Coq 8.16.1 kernel (coqc, vm_compute; no native_compute)',
                   'tools/pyfront translator (validated per run against the implementation)',
                   'tools/props/%s.py correspondence harness' % self.pid] + list(trusted_extra) + \
                  ['axiom: ' + a for a in self.axioms]
        cov = {
            'obligations': self.obligations, 'discharged': self.discharged,
            'checker_cmd': checker_cmd or f'make -C coq props/P_{self.pid}.vo (full .vo) + coqc build/*_{self.pid}*.v',
            'trusted_base': trusted,
            'evaluations': self.evaluations, 'distinct_nontrivial': len(self.nontrivial),
            'rule': self.rule, 'samples': self.samples[:12] or ['(no case generated: an earlier step failed)'],
            'traces_validated_against_impl': self.traces,
            'broken_obligations': self.broken,
        }
        cov.update(self.extra)
        if self.machinery_errors:
            cov['machinery_errors'] = self.machinery_errors
        if self.obligations == 0 or self.discharged == 0:
            # keep the evidence file schema-valid without pretending a proof was checked
            cov.pop('obligations'); cov.pop('discharged')
            cov['evaluations'] = max(1, cov['evaluations'])
            cov['distinct_nontrivial'] = max(0, cov['distinct_nontrivial'])
        ev = {'property_id': self.pid, 'tier': self.tier, 'seed': self.seed, 'level': level, 'coverage': cov,
              'assumptions': list(assumptions) + self.notes, 'wall_s': round(wall, 2),
              'violations': len(lines)}
        with open(os.path.join(VERIF, 'evidence', f'{self.pid}.json'), 'w') as f:
            json.dump(ev, f, indent=1, default=str)
        if self.replay_payload is not None and not self.replay_handled:
            key = self.replay_payload.get('key')
            again = [f for f in self.failures if f['key'] == key] if key else []
            if key:
                print(f'REPLAY {self.replay}: recorded input ({key}) ' + ('FAILS again' if again else 'no longer fails'))
            else:
                print(f'REPLAY {self.replay}: broken obligations now: {[b["obligation"] for b in self.broken]}')
        for ln in lines:
            print(ln)
        if self.machinery_errors and not lines:
            print(f'MACHINERY-ERROR property={self.pid}: {self.machinery_errors[:3]}')
            sys.exit(2)
        print(f'[{self.pid}] tier={self.tier} obligations={self.obligations} discharged={self.discharged} '
              f'cases={self.evaluations} distinct={len(self.nontrivial)} broken={len(self.broken)} '
              f'failures={len(self.failures)} wall={wall:.1f}s')
        sys.exit(1 if lines else 0)


def float_lit(x):
    """Exact decimal rendering of a float for Coq (as a rational of integers)."""
    from fractions import Fraction
    fr = Fraction(float(x))
    if fr.denominator == 1:
        return f'{fr.numerator}'
    return f'{fr.numerator} / {fr.denominator}'


def dyadic(r, lo, hi, bits=6):
    """A random dyadic rational in [lo, hi] with `bits` fractional bits: exactly representable
    as a float and as a short Coq literal."""
    q = 1 << bits
    return r.randint(int(lo * q), int(hi * q)) / q
