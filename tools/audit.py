#!/venv/bin/python
"""./check --audit : re-check the compiled property files with the independent checker coqchk and record
the axioms it reports in AUDIT.txt (separate target: minutes and GBs; not part of any registered check)."""
import glob
import os
import subprocess
import sys
import time

sys.path.insert(0, os.path.dirname(os.path.abspath(__file__)))
import common

mods = sorted('ND.props.' + os.path.basename(p)[:-2] for p in glob.glob(os.path.join(common.COQ, 'props', 'P_C*.v')))
only = sys.argv[1:] or mods
t0 = time.time()
out = []
# snapshot the compiled tree under the shared lock (a concurrent make cannot rewrite a .vo under coqchk)
import shutil
import tempfile
snap = tempfile.mkdtemp(prefix='nd_audit_')
with common.Lock(shared=True):
    shutil.copytree(common.COQ, os.path.join(snap, 'coq'), ignore=shutil.ignore_patterns('*.glob', '*.aux', '*.vos', '*.vok'))
import atexit
atexit.register(shutil.rmtree, snap, True)


def one(m):
    cmd = ['timeout', os.environ.get('AUDIT_TIMEOUT', '3000'), 'coqchk', '-silent', '-o'] + common.COQ_FLAGS + [m]
    p = subprocess.run(cmd, cwd=os.path.join(snap, 'coq'), stdout=subprocess.PIPE, stderr=subprocess.STDOUT, text=True)
    return m, p


from concurrent.futures import ThreadPoolExecutor
with ThreadPoolExecutor(4) as ex:
    results = list(ex.map(one, only))
TIMEOUT = os.environ.get('AUDIT_TIMEOUT', '3000')
secdir = os.path.join(common.VERIF, 'audit.d')
os.makedirs(secdir, exist_ok=True)
for m, p in results:
    tail = p.stdout.strip().splitlines()
    # keep the CONTEXT SUMMARY (axioms, guard/positivity flags) of each module
    try:
        i = next(k for k, l in enumerate(tail) if 'CONTEXT SUMMARY' in l)
        summary = tail[i:]
    except StopIteration:
        summary = tail[-25:]
    note = ' (timed out: the independent checker did not finish within the limit; coqc itself accepted the file)' if p.returncode == 124 else ''
    sec = f'### {m}  (coqchk exit {p.returncode}{note}; {time.strftime("%Y-%m-%d %H:%M")})\n' + '\n'.join(summary) + '\n'
    with open(os.path.join(secdir, m + '.txt'), 'w') as f:
        f.write(sec)
    print(sec, flush=True)
with open(os.path.join(common.VERIF, 'AUDIT.txt'), 'w') as f:
    f.write('coqchk -o over the property files (independent re-check of the compiled development; one section per '
            'property file, each from the most recent audit run of that file)\ncoq: 8.16.1\n\n')
    for q in sorted(glob.glob(os.path.join(secdir, '*.txt'))):
        f.write(open(q).read() + '\n')
