#!/bin/bash
# development tool: run every check of a tier sequentially on /repo, one summary line per check
tier=${1:-quick}
cd "$(dirname "$0")/.."
for p in C01 C02 C03 C04 C05 C06 C07 C08 C09 C10 C11 C12 C13 C14 C15 C16 C17 C18 C19 C20; do
  s=$(date +%s)
  out=$(./check $p --tier $tier 2>&1); rc=$?
  echo "$out" | grep -E "^VIOLATION|^KNOWN-FINDING|^MACHINERY|^\[$p\]" | sed "s/^/$p rc=$rc $(( $(date +%s) - s ))s /"
done
