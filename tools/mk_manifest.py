#!/venv/bin/python
import json
import os
import sys

sys.path.insert(0, os.path.dirname(os.path.abspath(__file__)))
from manifest_entries import CHECKS, ENGINE_A, ENGINE_B

VERIF = os.path.dirname(os.path.dirname(os.path.abspath(__file__)))
props = [json.loads(l)['id'] for l in open(os.path.join(VERIF, 'properties.jsonl'))]
checks = []
for pid in props:
    if pid not in CHECKS:
        continue
    c = CHECKS[pid]
    checks.append({
        'property_id': pid,
        'quick_cmd': f'./check {pid} --tier quick',
        'thorough_cmd': f'./check {pid} --tier thorough',
        'evidence_file': f'evidence/{pid}.json',
        'replay_cmd_template': f'./check {pid} --replay {{path}}',
        'engine': c['engine'],
        'level_claimed': {'category': 'proof', 'text': c['text'], 'design_ref': c['ref']},
        'level_note': c['note'],
        'technique': c['technique'],
    })
m = {
    'version': 1,
    'setup_cmd': './check --setup',
    'hooks': {
        'guard': 'NEURODIFFEQ_VERIF',
        'enable': 'no source hooks: every observation uses public constructors, spies and process-local wrapping inside the harness',
        'baseline_off_cmd': 'cd /repo && /venv/bin/python -m pytest -ra -q -p no:cacheprovider --timeout=900 --continue-on-collection-errors',
        'source_commits': [],
        'add_only': True,
    },
    'engines': [
        {'name': ENGINE_A, 'path': 'tools/pyfront + coq/lib + coq/gen + coq/proofs + coq/props',
         'serves_properties': [p for p in props if p in CHECKS and CHECKS[p]['engine'] == ENGINE_A],
         'kind_free_text': 'fail-closed Python-ast translator regenerating a deep-embedded Coq model (expr, symbolic D, eval over R) on '
                           'every run; theorems re-checked by coqc; translation validated against the real torch code numerically '
                           'and by in-kernel interval goals'},
        {'name': ENGINE_B, 'path': 'coq/model + coq/proofs + coq/props + tools/harness',
         'serves_properties': [p for p in props if p in CHECKS and CHECKS[p]['engine'] == ENGINE_B],
         'kind_free_text': 'hand-written executable Gallina state-machine models with invariants proved by induction; a correspondence '
                           'harness runs the real classes and the model (vm_compute inside Coq) on the same operation sequences'},
    ],
    'checks': checks,
    'not_applicable': [{'property_id': p, 'reason': 'not yet implemented in this framework (work in progress; see DESIGN.md section 7)'}
                       for p in props if p not in CHECKS],
    'notes': 'all checks: ./check <ID> --tier quick|thorough; setup builds the whole Coq development; see DESIGN.md',
}
json.dump(m, open(os.path.join(VERIF, 'MANIFEST.json'), 'w'), indent=1)
print('MANIFEST.json:', len(checks), 'checks,', len(m['not_applicable']), 'not_applicable')
