#!/venv/bin/python
"""print one line per evaluation log in build/seed2logs (development tool)"""
import glob, json, os, sys
for p in sorted(glob.glob(os.path.join(os.path.dirname(os.path.dirname(os.path.abspath(__file__))), 'build', os.environ.get('SEEDLOGS', 'seed2logs'), '*.log'))):
    t = open(p).read(); i = t.find('{\n')
    try:
        d = json.loads(t[i:])
    except ValueError:
        print(os.path.basename(p), 'UNPARSED', t[-300:]); continue
    cc = d.get('check_on_changed', {})
    print(os.path.basename(p)[:-4], 'demo', d.get('demo_unchanged_exit'), d.get('demo_changed_exit'), '| tests', d.get('tests', {}).get('summary'), d.get('tests', {}).get('unexpected_failures'),
          '| caught', d.get('caught'), cc.get('exit'), cc.get('replay_key'), cc.get('broken'), '| repo', d.get('check_on_repo', {}).get('exit'), d.get('error'))
