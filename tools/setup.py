#!/venv/bin/python
"""./check --setup : regenerate every Gen_*.v from the tree under test and build the whole Coq
development (full .vo).  Run once after a fresh restore; the per-property checks rebuild
incrementally afterwards."""
import glob
import os
import sys
import time

sys.path.insert(0, os.path.dirname(os.path.abspath(__file__)))
import common
import registry
from pyfront.gen import generate


def main():
    t0 = time.time()
    bad = common.hygiene()
    if bad:
        print('\n'.join('HYGIENE: ' + b for b in bad))
        sys.exit(2)
    failed = []
    for pid in registry.PROPS:
        if pid in registry.CUSTOM:
            try:
                ok, info = registry.run_custom(pid)
            except Exception as e:      # a broken emitter must not stop the rest of the setup
                ok, info = False, {'error': f'{type(e).__name__}: {e}'}
            if not ok:
                failed.append((pid, 'custom', info.get('error')))
                print(f'setup: custom generator of {pid} refused: {info.get("error")}')
        for gen_name, mod in registry.GEN.get(pid, []):
            ok, info = generate(common.REPO, gen_name, registry.targets_of(mod), common.GEN)
            if not ok:
                failed.append((pid, gen_name, info['error']))
                print(f'setup: translator refused {gen_name}: {info["error"]}')
    # build everything that can be built; a refusal above leaves that property's props unbuildable,
    # which its own check reports
    common.ensure_makefile()
    vos = [f[:-2] + '.vo' for f in common.coq_project_files() if not f.startswith('gen/') or os.path.exists(os.path.join(common.COQ, f))]
    ok, log, secs = common.coq_make(vos, timeout=3400, jobs=16)
    print(log[-3000:] if not ok else f'setup: built {len(vos)} files in {secs:.0f}s')
    print(f'setup done in {time.time() - t0:.0f}s; translator refusals: {len(failed)}')
    sys.exit(0 if ok or failed else 1)


if __name__ == '__main__':
    main()
