#!/venv/bin/python
"""Evaluate one independently seeded change against the checks (development-time tool, not a registered
check).  usage: tools/seeded_eval.py <ID> <variant> [--tests] [--src /tmp/seed/<ID>.out/<variant>]

  1. scratch worktree of /repo HEAD under /tmp/eval_<ID>_<variant>; apply patch.diff there
  2. run demo.py on the unchanged /repo (must exit 0) and on the changed tree (must exit non-zero)
  3. optionally run the property's relevant test files on the changed tree (must pass apart from the
     baseline failures)
  4. run ./check <ID> with VERIF_REPO=<changed tree> (expect exit 1 + VIOLATION) and again on /repo (exit 0)
  5. store patch.diff, demo.py, meta.json (attacker's + our results) under /verif/seeded/<ID>/<variant>/
  6. remove the scratch worktree
"""
import json
import os
import shutil
import subprocess
import sys

VERIF = os.path.dirname(os.path.dirname(os.path.abspath(__file__)))
ENV = dict(os.environ, OMP_NUM_THREADS='2', MKL_NUM_THREADS='2', PYTHONDONTWRITEBYTECODE='1')
TESTS = {
    'C01': 'tests/test_conditions.py tests/test_ode.py', 'C02': 'tests/test_conditions.py tests/test_pde.py',
    'C03': 'tests/test_neurodiffeq.py tests/test_operators_cartesian.py', 'C04': 'tests/test_solvers.py tests/test_ode.py',
    'C05': 'tests/test_solvers.py', 'C06': 'tests/test_solvers.py tests/test_ode.py tests/test_pde.py', 'C07': 'tests/test_generators.py',
    'C08': 'tests/test_operators_cartesian.py tests/test_operators_identities.py',
    'C09': 'tests/test_operators_spherical.py tests/test_operators_cylindrical.py tests/test_operators_identities.py',
    'C10': 'tests/test_conditions.py', 'C11': 'tests/test_conditions.py tests/test_pde_spherical.py', 'C12': 'tests/test_conditions.py',
    'C13': 'tests/test_generators.py', 'C14': 'tests/test_generators.py', 'C15': 'tests/test_solvers.py tests/test_callbacks.py',
    'C16': 'tests/test_callbacks.py tests/test_solvers.py', 'C17': 'tests/test_pde_spherical.py tests/test_solvers.py',
    'C18': 'tests/test_solvers_utils.py tests/test_solvers.py', 'C19': 'tests/test_networks.py', 'C20': 'tests/test_temporal.py',
}
BASELINE_FAIL = ['test_checkpoint_callback', 'test_bvp__legacy_signature', 'test_predefined_generator', 'test_APTx', 'test_monitor',
                 'test_monitor_spherical', 'test_legacies', 'test_function_basis']


def run(cmd, cwd=None, env=None, timeout=3000):
    p = subprocess.run(cmd, cwd=cwd, env=env or ENV, shell=isinstance(cmd, str), stdout=subprocess.PIPE, stderr=subprocess.STDOUT, text=True, timeout=timeout)
    return p.returncode, p.stdout


def main():
    pid, var = sys.argv[1], sys.argv[2]
    do_tests = '--tests' in sys.argv
    src = f'/tmp/seed/{pid}.out/{var}'
    if '--src' in sys.argv:
        src = sys.argv[sys.argv.index('--src') + 1]
    wt = f'/tmp/eval_{pid}_{var}'
    run(['git', '-C', '/repo', 'worktree', 'remove', '--force', wt])
    rc, out = run(['git', '-C', '/repo', 'worktree', 'add', '-q', '--detach', wt, 'HEAD'])
    res = {'property': pid, 'variant': var}
    try:
        rc, out = run(['git', '-C', wt, 'apply', os.path.join(src, 'patch.diff')])
        res['patch_applies'] = rc == 0
        if rc != 0:
            rc, out = run(['git', '-C', wt, 'apply', '--3way', os.path.join(src, 'patch.diff')])
            res['patch_applies_3way'] = rc == 0
            if rc != 0:
                res['error'] = out[-500:]
                print(json.dumps(res, indent=1)); return
        demo = os.path.join(src, 'demo.py')
        rc0, o0 = run(['/venv/bin/python', demo], cwd='/repo', env=dict(ENV, PYTHONPATH='/repo'))
        rc1, o1 = run(['/venv/bin/python', demo], cwd=wt, env=dict(ENV, PYTHONPATH=wt))
        res['demo_unchanged_exit'] = rc0
        res['demo_changed_exit'] = rc1
        res['demo_changed_tail'] = o1.strip().splitlines()[-3:]
        if rc0 != 0:
            res['demo_unchanged_tail'] = o0.strip().splitlines()[-5:]
        if do_tests:
            rc, out = run(f'/venv/bin/python -m pytest -q -p no:cacheprovider --timeout=900 {TESTS[pid]}', cwd=wt, env=dict(ENV, PYTHONPATH=wt))
            failed = [l for l in out.splitlines() if l.startswith('FAILED') or l.startswith('ERROR')]
            unexpected = [l for l in failed if not any(b in l for b in BASELINE_FAIL)]
            res['tests'] = {'cmd': TESTS[pid], 'summary': out.strip().splitlines()[-1], 'unexpected_failures': unexpected}
        rc, out = run([os.path.join(VERIF, 'check'), pid], cwd=VERIF, env=dict(ENV, VERIF_REPO=wt))
        lines = [l for l in out.splitlines() if l.startswith(('VIOLATION', 'KNOWN-FINDING', 'MACHINERY', '[' + pid))]
        res['check_on_changed'] = {'exit': rc, 'lines': lines[-6:]}
        replay = None
        for l in lines:
            if l.startswith('VIOLATION') and 'replay=' in l:
                replay = l.split('replay=')[1].split()[0]
        if replay and os.path.exists(replay):
            rp = json.load(open(replay))
            res['check_on_changed']['replay_key'] = rp.get('key')
            res['check_on_changed']['replay_what'] = str(rp.get('what'))[:300]
            res['check_on_changed']['broken'] = [b.get('obligation') for b in rp.get('broken_obligations', rp.get('obligations', []))][:4]
        rc, out = run([os.path.join(VERIF, 'check'), pid], cwd=VERIF)
        res['check_on_repo'] = {'exit': rc, 'line': [l for l in out.splitlines() if l.startswith('[' + pid)][-1:]}
        res['caught'] = res['check_on_changed']['exit'] == 1 and any(l.startswith('VIOLATION') for l in lines)
        dst = os.path.join(VERIF, 'seeded', pid, var)
        os.makedirs(dst, exist_ok=True)
        if os.path.abspath(dst) != os.path.abspath(src):
            shutil.copy(os.path.join(src, 'patch.diff'), dst)
            shutil.copy(demo, dst)
        meta = {}
        if os.path.exists(os.path.join(src, 'meta.json')):
            try:
                meta = json.load(open(os.path.join(src, 'meta.json')))
            except ValueError:
                meta = {'raw': open(os.path.join(src, 'meta.json')).read()[:2000]}
        if 'evaluation' in meta and os.path.abspath(dst) == os.path.abspath(src):
            meta.setdefault('earlier_evaluations', []).append(meta['evaluation'])
        meta['evaluation'] = res
        json.dump(meta, open(os.path.join(dst, 'meta.json'), 'w'), indent=1)
    finally:
        run(['git', '-C', '/repo', 'worktree', 'remove', '--force', wt])
        shutil.rmtree(wt, ignore_errors=True)
    print(json.dumps(res, indent=1))


if __name__ == '__main__':
    main()
